"""C15 — audit logging is a pure observer, even when it fails."""
from __future__ import annotations

import builtins
import collections
import json
import os
import pathlib
import re
import subprocess
from concurrent.futures import ThreadPoolExecutor

import corr_config as CC
import hookrun as H
from common import rng

ID = "C15"
PROP_FILES = ["C15"]
RULE = (
    "correspondence: configure_logging + log_decision in-process with exceptions of chosen classes injected into Path.mkdir / open / write (harness-side wrappers) vs the fault-schedule model: raised or swallowed, "
    "disabled flag, the appended entry's keys and values. search: the real hook with real faults at both sinks (parent is a file, path is a directory, /dev/full, dangling symlink, NUL in the path, over-long name, "
    "HOME pointing to a file, ~unknownuser) for every verdict class and host mode: stdout and exit byte-identical to the logging-off run; when the sink works each decision appends exactly one JSON line with the documented keys, "
    "'command' iff log-full; strace shows one write(2) per line; N concurrent hook processes on one log leave only whole lines, one per process."
)
TRUSTED = ["T1 in-process fault injection (harness-side wrappers around pathlib/open)", "strace for the single-write premise", "real kernel for O_APPEND behaviour (validation only)"]
ASSUMES = ["Linux O_APPEND atomicity for regular files on a local file system (the concurrency theorem's premise: one atomic write per line)", "the logging module swallows its own handler errors (they go to stderr, which the property does not constrain)"]

EXC = {"oserror": [FileNotFoundError, NotADirectoryError, IsADirectoryError, PermissionError, OSError], "valueerror": [ValueError, UnicodeEncodeError], "other": [TypeError, RuntimeError, KeyError]}


def make_exc(cls):
    if cls is UnicodeEncodeError:
        return UnicodeEncodeError("ascii", "x", 0, 1, "injected")
    return cls("injected")


def run_log(cfg, faults, r, args):
    """configure_logging + log_decision with injected faults; returns what happened."""
    from dippy.core import config as C

    real_mkdir, real_open = pathlib.Path.mkdir, builtins.open
    log_path = str(cfg.log) if cfg.log is not None else None
    written = []

    class F:
        def __enter__(self):
            return self

        def __exit__(self, *a):
            return False

        def write(self, s):
            if faults["write"] != "ok":
                raise make_exc(r.pick(EXC[faults["write"]]))
            written.append(s)

    def mkdir(self, *a, **k):
        if faults["mkdir"] != "ok":
            raise make_exc(r.pick(EXC[faults["mkdir"]]))
        return None

    def open_(path, mode="r", *a, **k):
        if log_path is not None and str(path) == log_path:
            if faults["open"] != "ok":
                raise make_exc(r.pick(EXC[faults["open"]]))
            return F()
        return real_open(path, mode, *a, **k)

    pathlib.Path.mkdir = mkdir
    C.open = open_  # module-level name shadows the builtin inside config.py only
    try:
        try:
            C.configure_logging(cfg)
        except Exception:  # noqa: BLE001
            return "raised:configure"
        try:
            C.log_decision(*args[:2], rule=args[2], message=args[3], command=args[4])
        except Exception:  # noqa: BLE001
            return "raised:log"
        line = None
        if written:
            e = json.loads(written[0])
            e["ts"] = "TS"
            line = [[k, v] for k, v in e.items()]
            if not written[0].endswith("\n") or len(written) != 1:
                line = "malformed-write:" + repr(written)
        return {"disabled": bool(C._log_disabled), "configured": C._log_config is not None, "line": line}
    finally:
        pathlib.Path.mkdir = real_mkdir
        del C.open
        C._log_config = None
        C._log_disabled = False


def correspondence(ctx):
    from dippy.core import config as C

    r = rng("c15-corr")
    acc = CC.Acc("configure_logging/log_decision under injected sink faults")
    n = ctx.scale(1500, 30000) * (2 if ctx.broken else 1)
    for _ in range(n):
        text = r.pick(["", "set log /tmp/dippy-verif-nonexistent/d.log\n", "set log /tmp/dippy-verif-nonexistent/d.log\nset log-full\n", "set log-full\n"])
        cfg = C.parse_config(text)
        faults = {k: r.pick(["ok", "ok", "ok", "oserror", "valueerror", "other"]) for k in ("mkdir", "open", "write")}
        args = (r.pick(["allow", "ask", "deny"]), r.pick(["ls", "rm x", "é \"q\""]), r.pick([None, "mcp__*"]), r.pick([None, "msg"]), r.pick([None, "ls -la", ""]))
        impl = run_log(cfg, faults, r, args)
        rep = ctx.model.ask({"op": "logrun", "config": CC.cfg_to_json(cfg), "mkdir": faults["mkdir"], "open": faults["open"], "write": faults["write"], "decision": args[0], "cmd": args[1], "rule": args[2], "message": args[3], "command": args[4]})
        acc.case([text, faults, list(args)], impl, rep, nontrivial=cfg.log is not None, tag=("raised" if isinstance(impl, str) else "line" if impl["line"] else "noline"), sample={"config": text, "faults": faults, "result": impl})
    return [acc.result()]


def fault_layouts(s: H.Scratch):
    """(label, config text for the decision log, HOME for the approvals log)"""
    root = s.root
    afile = s.write("afile", "x")
    adir = os.path.join(root, "adir")
    os.makedirs(adir, exist_ok=True)
    dangling = os.path.join(root, "dangling")
    if not os.path.lexists(dangling):
        os.symlink(os.path.join(root, "nowhere", "x"), dangling)
    home_file = s.write("homefile", "not a dir")
    good = os.path.join(root, "logs", "d.log")
    return [
        ("working", f"set log {good}\n", None),
        ("working+full", f"set log {good}\nset log-full\n", None),
        ("parent-is-file (ENOTDIR)", f"set log {afile}/sub/d.log\n", None),
        ("path-is-directory (EISDIR)", f"set log {adir}\n", None),
        ("/dev/full (ENOSPC)", "set log /dev/full\n", None),
        ("dangling symlink parent", f"set log {dangling}/d.log\n", None),
        ("NUL in path", "set log /tmp/a\x00b/d.log\n", None),
        ("over-long name", "set log /tmp/" + "n" * 300 + "/d.log\n", None),
        ("unknown user", "set log ~nosuchuser/d.log\n", None),
        ("read-only fs (/proc)", "set log /proc/dippy/d.log\n", None),
        ("HOME is a file", "", home_file),
        ("HOME missing", "", os.path.join(root, "no", "such", "home")),
        ("HOME is /dev/null", "", "/dev/null"),
    ], good


def search(ctx):
    r = rng("c15-search")
    stats = collections.Counter()
    vios = []
    samples = []
    with H.Scratch() as s:
        layouts, good = fault_layouts(s)
        base_rules = "deny denied \"no\"\nallow ok1\nallow-mcp mcp__a__*\n"
        cmds = [("ls", "allow"), ("rm x", "ask"), ("denied", "deny"), ("'bad", "ask")]
        inputs = []
        for cmd, _ in cmds:
            inputs.append(("claude", H.claude_input(cmd, cwd=s.proj), []))
            inputs.append(("gemini", json.dumps({"tool_name": "shell", "tool_input": {"command": cmd}, "cwd": s.proj}).encode(), []))
            inputs.append(("cursor", json.dumps({"command": cmd, "cwd": s.proj}).encode(), []))
        inputs.append(("mcp", H.claude_input("x", cwd=s.proj, tool="mcp__a__t"), []))
        inputs.append(("bypass", json.dumps({"tool_name": "Bash", "tool_input": {"command": "rm x"}, "cwd": s.proj, "permission_mode": "bypassPermissions"}).encode(), []))
        if ctx.tier != "thorough" and not ctx.broken:
            inputs = r.sample(inputs, 7)
        jobs, metas = [], []
        off_cfg = s.write("off.conf", base_rules)
        for label, text, home in layouts:
            cfgp = s.write("c_%d.conf" % len(metas), base_rules + text)
            for host, stdin, args in inputs:
                jobs.append({"stdin": stdin, "home": home or s.home, "args": args, "env_extra": {"DIPPY_CONFIG": cfgp}, "cwd": s.proj})
                metas.append((label, host, stdin, "fault"))
                jobs.append({"stdin": stdin, "home": s.home, "args": args, "env_extra": {"DIPPY_CONFIG": off_cfg}, "cwd": s.proj})
                metas.append((label, host, stdin, "off"))
        res = H.run_many(jobs)
        for i in range(0, len(res), 2):
            (label, host, stdin, _), (rc, out, err) = metas[i], res[i]
            rc0, out0, err0 = res[i + 1]
            stats["evaluations"] += 2
            stats["fault:" + label] += 1
            if (rc, out) != (rc0, out0):
                vios.append({"input": {"stdin": stdin.decode(), "log_fault": label}, "observed": {"with_fault": [rc, out.decode("utf-8", "replace")[:300]], "logging_off": [rc0, out0.decode("utf-8", "replace")[:300]], "stderr_tail": err[-200:].decode("utf-8", "replace")}, "required": "stdout and exit status byte-identical to a run with logging off", "oracle": "log-transparent"})
        # the working sink: one well-formed JSON line per decision, 'command' iff log-full
        if os.path.exists(good):
            lines = open(good, encoding="utf-8").read().split("\n")
            if lines[-1] != "":
                vios.append({"input": {"log": "working"}, "observed": {"tail": lines[-1][:100]}, "required": "every entry ends with a newline", "oracle": "log-lines"})
            lines = [l for l in lines if l]
            n_working = sum(1 for m in metas if m[0].startswith("working") and m[3] == "fault")
            stats["log_lines"] = len(lines)
            if len(lines) != n_working:
                vios.append({"input": {"log": "working"}, "observed": {"lines": len(lines), "decisions": n_working}, "required": "each decision appends exactly one line", "oracle": "log-lines"})
            for l in lines:
                try:
                    e = json.loads(l)
                    assert isinstance(e, dict) and set(e) <= {"decision", "cmd", "rule", "message", "command", "ts"} and {"decision", "cmd", "ts"} <= set(e)
                except Exception:  # noqa: BLE001
                    vios.append({"input": {"log": "working"}, "observed": {"line": l[:200]}, "required": "each line is a JSON object with the documented keys", "oracle": "log-lines"})
            n_full = sum(1 for m in metas if m[0] == "working+full" and m[3] == "fault" and m[1] in ("claude", "gemini", "cursor", "bypass"))
            n_cmd = sum(1 for l in lines if "command" in json.loads(l))
            if n_cmd != n_full:
                vios.append({"input": {"log": "working"}, "observed": {"entries_with_command": n_cmd, "log_full_shell_decisions": n_full}, "required": "the full command text is recorded only if log-full is set", "oracle": "log-full"})
            if lines:
                samples.append({"log_line": lines[0]})
        # the single-write premise of the concurrency theorem, by strace
        tr = os.path.join(s.root, "trace.txt")
        cfgp = s.write("strace.conf", base_rules + f"set log {s.root}/st/d.log\nset log-full\n")
        env = {"HOME": s.home, "PATH": "/usr/bin:/bin", "LANG": "C.UTF-8", "DIPPY_CONFIG": cfgp}
        big = "ls " + "x" * 20000
        p = subprocess.run(["strace", "-f", "-o", tr, "-e", "trace=write,openat", H.PY, H.HOOK], input=H.claude_input(big, cwd=s.proj), capture_output=True, env=env, cwd=s.proj, timeout=120)
        fds = {}
        writes = 0
        for line in open(tr, errors="replace"):
            m = re.search(r'openat\(.*"([^"]*st/d\.log)".*O_APPEND.*\)\s*=\s*(\d+)', line)
            if m:
                fds[m.group(2)] = True
            m = re.search(r"write\((\d+),", line)
            if m and m.group(1) in fds:
                writes += 1
        stats["strace_writes_to_log"] = writes
        stats["evaluations"] += 1
        if p.returncode != 0 or writes != 1 or not fds:
            vios.append({"input": {"command_len": len(big), "log_full": True}, "observed": {"write_syscalls_to_log_fd": writes, "opened_with_O_APPEND": bool(fds), "exit": p.returncode}, "required": "one entry = one write(2) on an O_APPEND descriptor (premise of the concurrent-append theorem)", "oracle": "single-write"})
        # concurrent hook processes on one log
        nproc = 48 if ctx.tier == "thorough" else 12
        clog = os.path.join(s.root, "conc", "d.log")
        cfgp = s.write("conc.conf", base_rules + f"set log {clog}\nset log-full\n")
        cj = [{"stdin": H.claude_input("ls " + ("y%d " % i) * (50 + 40 * i), cwd=s.proj), "home": s.home, "env_extra": {"DIPPY_CONFIG": cfgp}, "cwd": s.proj} for i in range(nproc)]
        with ThreadPoolExecutor(nproc) as ex:
            list(ex.map(lambda kw: H.run_hook(**kw), cj))
        stats["evaluations"] += nproc
        got = open(clog, encoding="utf-8").read().split("\n") if os.path.exists(clog) else []
        body = [l for l in got if l]
        ok = len(body) == nproc and (not got or got[-1] == "")
        seen = set()
        for l in body:
            try:
                seen.add(json.loads(l)["command"])
            except Exception:  # noqa: BLE001
                ok = False
        if not ok or len(seen) != nproc:
            vios.append({"input": {"concurrent_processes": nproc}, "observed": {"lines": len(body), "distinct_whole_entries": len(seen)}, "required": "each of N concurrent decisions appends exactly one whole line", "oracle": "concurrent-append"})
        stats["concurrent_lines"] = len(body)
    return {"violations": vios[:5], "evaluations": stats["evaluations"], "distinct_nontrivial": len([k for k in stats if k.startswith("fault:")]) + 2, "stats": dict(stats), "samples": samples, "oracle": "fault vs logging-off byte comparison; log line well-formedness; strace single write; concurrent appends"}


def matches_finding(entry, v) -> bool:
    return False


def finding_still_fails(ctx, entry) -> bool:
    return False


def replay(payload) -> int:
    print(json.dumps(payload.get("input"), ensure_ascii=True))
    print("observed:", payload.get("observed"), "\nrequired:", payload.get("required"))
    print("(re-run ./check C15 with the same VERIF_SEED to rebuild the faulting sinks)")
    return 1
