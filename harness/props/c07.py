"""C07 — user rules decide: last match wins, non-matching rules are inert."""
from __future__ import annotations

import collections
from pathlib import Path

import corr_config as CC
from common import has_surrogate, rng
from corr_analyzer import correspondence_cfg

ID = "C07"
PROP_FILES = ["C07"]
RULE = (
    "correspondence: fnmatch.fnmatch on generated (pattern, text) pairs incl. bracket corner cases; match_command on generated rule lists "
    "(literal, anchored, glob, path-like, aliases) x commands derived from the patterns; analyze() end-to-end with the model computing the rule lookups "
    "from the parsed configuration. search: on the implementation, the last rule that matches alone (singleton configs) must decide the verdict of the whole list; "
    "inserting/deleting non-matching rules changes nothing; literal patterns match by whole-word prefix (exactly with |); env-assignment prefixes and pure wrappers "
    "do not hide a command from the rules; a deny carries the rule's message."
)
TRUSTED = [
    "T0 translator harness/gen_tables.py",
    "T1 correspondence harness (corr_config.py, corr_analyzer.py)",
    "CPython fnmatch/re modelled by hand (Model/Glob.lean), pathlib.resolve as the oracle PathEnv.resolve",
]
ASSUMES = [
    "handler classify() answers are oracles (World.classify)",
    "str.lower() on directives is modelled for ASCII only",
]

RANK = {"allow": 0, "ask": 1, "deny": 2}
CWD = "/tmp/probe"


def correspondence(ctx):
    m = ctx.model
    k = 2 if ctx.broken else 1
    out = [
        CC.corr_tables(m),
        CC.corr_fnmatch(m, rng("c07-fn"), ctx.scale(6000, 200000) * k),
        CC.corr_match_words(m, rng("c07-mw"), ctx.scale(400, 15000) * k),
    ]
    r = rng("c07-e2e")

    def cases():
        for _ in range(ctx.scale(300, 8000) * k):
            cfg_text = CC.gen_rules_text(r)
            for _ in range(3):
                ws = list(r.pick(CC.CMD_WORDS))
                x = r.random()
                if x < 0.2:
                    ws = ["X=1"] + ws
                elif x < 0.4:
                    ws = r.pick([["timeout", "5"], ["nice"], ["nohup"], ["command"], ["nice", "-n", "3"], ["command", "--"]]) + ws
                if any(" " in w or "*" in w for w in ws):
                    continue
                if r.chance(0.4):
                    # the same words quoted differently: the model's second pass (quote removal) against the real one
                    import bashgen as B

                    ws = [B.requote(r, w) if r.chance(0.5) else w for w in ws]
                    if any("\n" in w for w in ws):
                        continue
                yield " ".join(ws), cfg_text, r.pick([CWD, CWD + "/sub"])

    out.append(correspondence_cfg(m, cases()))
    out.append(corr_remove_quotes(m, rng("c07-rq"), ctx.scale(4000, 120000) * k))
    return out


QCHARS = list("abrm-x{};=/.") + ["'", '"', "\\", "$", "$'", '$"', "\\x2d", "\\055", "\\u002d", "\\n", "\\c", "\\U0000002d", "\\x", "\\8", " ", "\n", "`", "$(", "${", "<(", "é", "\\'", '\\"', "\\\\"]


def corr_remove_quotes(model, r, n):
    """`_remove_quotes` vs the model on word source texts: well-formed respellings and arbitrary quote soup"""
    from dippy.core.analyzer import _remove_quotes

    import bashgen as B

    acc = CC.Acc("_remove_quotes vs the model")
    items = []
    for _ in range(n):
        if r.chance(0.5):
            w = B.requote(r, r.pick(["rm", "-delete", "-exec", "git", "push", "a b", "it's", "x$y", "{}", ";", "-rf", "ls", "", "--force", "é"]))
        else:
            w = "".join(r.pick(QCHARS) for _ in range(r.randint(0, 7)))
        if has_surrogate(w):
            continue
        try:
            impl = _remove_quotes(w)
        except Exception as e:  # noqa: BLE001
            impl = "exc:" + type(e).__name__
        if isinstance(impl, str) and has_surrogate(impl):
            continue  # \ud800 … : Lean's Char has no surrogates (outside the model)
        items.append((w, impl))
    reps = model.batch([{"op": "removequotes", "s": w} for w, _ in items])
    for (w, impl), rep in zip(items, reps):
        acc.case(w, impl, rep, nontrivial=impl != w, tag="changed" if impl != w else "same", sample={"source": w, "word": impl})
    return acc.result()


GLOB_RULES = ["curl ** -o *", "find ** -exec *", "rm ** /nonexistent/build/*", "git ** --force*", "* ** *", "curl **", "ls **/x", "cat /nonexistent/**", "tar ** -C /nonexistent/*", "wget *://*", "scp * *:/srv/*",
              "rm -rf /nonexistent/*", "echo ?? **", "curl * -o *", "**", "** --force", "git push **", "g?t ** *[!a]"]
GLOB_CMDS = [["curl", "http://example.com/x", "-o", "/nonexistent/x"], ["find", "/nonexistent/d", "-name", "a", "-exec", "cat", "/nonexistent/f", "+"], ["rm", "-rf", "/nonexistent/build/out/a.o"],
             ["git", "push", "origin/main", "--force-with-lease"], ["wget", "https://h/a/b"], ["scp", "a", "h:/srv/www/x"], ["cat", "/nonexistent/ssl/certs/x.pem"], ["tar", "xf", "a.tar", "-C", "/nonexistent/x/y"],
             ["echo", "ab", "c/d"], ["ls", "a/b/x"], ["curl", "x"], ["git", "push", "--force"], ["curl", "-o", "f"], ["rm", "-rf", "/nonexistent/a"]]


def search(ctx):
    from dippy.core import config as C
    from dippy.core.analyzer import analyze

    r = rng("c07-search")
    n = ctx.scale(400, 12000) * (5 if ctx.broken else 1)
    stats = collections.Counter()
    vios = []
    samples = []
    seen = set()
    cwd = Path(CWD)
    empty = C.Config()

    def verdict(text, cfg):
        d = analyze(text, cfg, cwd)
        stats["evaluations"] += 1
        return d.action, d.reason

    # exhaustive small case: every rule list of length <= 3 over six patterns x three decisions, against five commands:
    # the answer of match_command is the decision of the last rule that matches on its own (deterministic)
    import itertools

    pats = [("git push", False), ("git push *", False), ("git *", False), ("git push", True), ("gi*", False), ("rm", False), ("*push*", False), ("*t pu*", False)]
    rules = [C.Rule(dec, pat, exact=ex) for pat, ex in pats for dec in ("allow", "ask", "deny")]
    cmds5 = [["git", "push"], ["git", "push", "origin"], ["git", "status"], ["rm", "x"], ["git"]]
    alone = {(i, j): C.match_command(C.SimpleCommand(words=ws), C.Config(rules=[rule]), cwd) is not None for i, rule in enumerate(rules) for j, ws in enumerate(cmds5)}
    for k in (1, 2, 3):
        for idx in itertools.product(range(len(rules)), repeat=k):
            cfgk = C.Config(rules=[rules[i] for i in idx])
            for j, ws in enumerate(cmds5):
                m = C.match_command(C.SimpleCommand(words=ws), cfgk, cwd)
                stats["exhaustive_lists"] += 1
                hit = [i for i in idx if alone[(i, j)]]
                want = rules[hit[-1]].decision if hit else None
                got = m.decision if m is not None else None
                if got != want and stats["exhaustive_violations"] < 3:
                    stats["exhaustive_violations"] += 1
                    vios.append({"input": {"command": " ".join(ws), "config": "".join("%s %s%s\n" % (rules[i].decision, rules[i].pattern, " |" if rules[i].exact else "") for i in idx), "cwd": CWD}, "observed": {"match": got}, "required": f"decision of the last rule that matches on its own == {want}", "oracle": "last-match(exhaustive lists)"})
    for _ in range(n):
        text = CC.gen_rules_text(r, k=r.randint(1, 8))
        cfg = C.parse_config(text)
        ws = list(r.pick(CC.CMD_WORDS))
        if any(" " in w or "*" in w for w in ws) or "=" in ws[0]:
            continue
        cmd = " ".join(ws)
        # which rules match alone (same aliases)
        hits = []
        for rule in cfg.rules:
            single = C.Config(rules=[rule], aliases=dict(cfg.aliases))
            if C.match_command(C.SimpleCommand(words=ws), single, cwd) is not None:
                hits.append(rule)
        act, reason = verdict(cmd, cfg)
        key = (text, cmd)
        if key not in seen:
            seen.add(key)
            stats["distinct"] += 1
        if len(samples) < 3:
            samples.append({"rules": text, "command": cmd, "matching_rules": [x.pattern for x in hits], "verdict": act})
        base_cfg = C.Config(aliases=dict(cfg.aliases))
        if hits:
            stats["with_match"] += 1
            want = hits[-1].decision
            if act != want:
                vios.append({"input": {"command": cmd, "config": text, "cwd": CWD}, "observed": {"verdict": act, "reason": reason}, "required": f"verdict of the last matching rule ({hits[-1].pattern}) == {want}", "oracle": "last-match"})
            if want == "deny" and (hits[-1].message or hits[-1].pattern) not in reason:
                vios.append({"input": {"command": cmd, "config": text, "cwd": CWD}, "observed": {"verdict": act, "reason": reason}, "required": "deny reason carries the rule's message", "oracle": "deny-message"})
        else:
            stats["no_match"] += 1
            want_act, want_reason = verdict(cmd, base_cfg)
            if (act, reason) != (want_act, want_reason):
                vios.append({"input": {"command": cmd, "config": text, "cwd": CWD}, "observed": {"verdict": act, "reason": reason}, "required": f"no rule matches: built-in verdict == {want_act}", "oracle": "no-match-builtin"})
        # inert: delete every non-matching rule
        kept = [x for x in cfg.rules if x in hits]
        cfg2 = C.Config(rules=kept, aliases=dict(cfg.aliases))
        a2, r2 = verdict(cmd, cfg2)
        if (a2, r2) != (act, reason):
            vios.append({"input": {"command": cmd, "config": text, "cwd": CWD}, "observed": {"verdict": act, "reason": reason, "without_non_matching": [a2, r2]}, "required": "non-matching rules are inert", "oracle": "inert"})
        # env-assignment prefix and pure wrappers do not hide the command
        for pre in (["X=1"], ["A=b", "C=d"], ["timeout", "5"], ["nice"], ["nohup"], ["command"], ["nice", "-n", "3"], ["timeout", "30s"], ["timeout", "-s", "KILL", "1.5m"], ["strace"], ["command", "--"], ["nohup", "nice"]):
            ws2 = pre + ws
            single_hits = C.match_command(C.SimpleCommand(words=ws2), cfg, cwd)
            if "=" not in pre[0] and single_hits is not None:
                continue  # a rule matches the wrapped form itself: that rule decides
            a3, _ = verdict(" ".join(ws2), cfg)
            stats["prefix_checks"] += 1
            if a3 != act:
                vios.append({"input": {"command": " ".join(ws2), "config": text, "cwd": CWD}, "observed": {"verdict": a3, "bare_command": cmd, "bare_verdict": act}, "required": f"same verdict as the bare command == {act}", "oracle": "prefix/wrapper-transparent"})
        # the same command quoted differently (bash runs the same program with the same arguments): a rule that matches the
        # plain spelling is not dodged - the verdict is never more lenient than the rule's decision
        if hits and hits[-1].decision in ("deny", "ask"):
            import bashgen as B

            ws3 = [B.requote(r, x) if r.chance(0.6) else x for x in ws]
            if ws3 != ws and not any("\n" in x for x in ws3):
                a4, r4 = verdict(" ".join(ws3), cfg)
                stats["requoted_commands"] += 1
                if RANK[a4] < RANK[hits[-1].decision]:
                    vios.append({"input": {"command": " ".join(ws3), "config": text, "cwd": CWD}, "observed": {"verdict": a4, "reason": r4, "plain_spelling": cmd, "plain_verdict": act},
                                 "required": "bash reads this as '%s', which the rule '%s' answers %s: the quoted spelling must not be judged more leniently" % (cmd, hits[-1].pattern, hits[-1].decision), "oracle": "requoted-command"})
        # literal prefix semantics, checked against an independent string computation
        for rule in cfg.rules:
            p = rule.pattern
            if any(ch in p for ch in "*?[") or any(t[:1] in "~./$" or "/" in t for t in p.split()):
                continue
            if any(t[:1] in "~./$" or "/" in t for t in ws) or ws[0] in cfg.aliases:
                continue
            single = C.Config(rules=[rule])
            got = C.match_command(C.SimpleCommand(words=ws), single, cwd) is not None
            pn = " ".join(p.split())
            want_hit = (cmd == pn) if rule.exact else (cmd == pn or cmd.startswith(pn + " "))
            stats["literal_checks"] += 1
            if got != want_hit:
                vios.append({"input": {"command": cmd, "config": ("deny " + p + ("|" if rule.exact else "") + "\n"), "cwd": CWD}, "observed": {"matched": got}, "required": f"literal pattern matches by whole-word prefix / exactly: {want_hit}", "oracle": "literal-prefix"})
        if len(vios) >= 5:
            break
    # glob patterns of command rules are fnmatch patterns over the command text (`*` and `**` alike match any characters, a
    # slash included; a trailing " *" also admits the bare command): checked against the standard library's fnmatch on
    # patterns that mix `**` with other wildcards and commands with slashes under them (deterministic)
    import fnmatch as _fn

    for pat in GLOB_RULES:
        for ws in GLOB_CMDS:
            for exact in (False, True):
                rule = C.Rule("deny", pat, exact=exact)
                got = C.match_command(C.SimpleCommand(words=ws), C.Config(rules=[rule]), cwd) is not None
                text = " ".join(ws)
                want_hit = _fn.fnmatch(text, pat) or (pat.endswith(" *") and text == pat[:-2])
                stats["glob_rule_checks"] += 1
                stats["evaluations"] += 1
                if got != want_hit and stats["glob_rule_violations"] < 4:
                    stats["glob_rule_violations"] += 1
                    vios.insert(0, {"input": {"command": text, "config": "deny " + pat + (" |" if exact else "") + "\n", "cwd": CWD}, "observed": {"matched": got}, "required": f"a glob pattern of a command rule matches the command text like fnmatch does: {want_hit}", "oracle": "glob-rule(fnmatch reference)"})
    return {"violations": vios[:5], "evaluations": stats["evaluations"], "distinct_nontrivial": stats["distinct"], "stats": dict(stats), "samples": samples, "oracle": "last-match / inert / literal-prefix / prefix-transparent / deny-message on analyze() and match_command()"}


def matches_finding(entry, v) -> bool:
    return False


def finding_still_fails(ctx, entry) -> bool:
    return False


def replay(payload) -> int:
    from dippy.core.analyzer import analyze
    from dippy.core.config import parse_config

    inp = payload["input"]
    d = analyze(inp["command"], parse_config(inp.get("config", "")), Path(inp.get("cwd", CWD)))
    print("observed now:", d.action, "|", d.reason)
    print("recorded    :", payload.get("observed"))
    print("required    :", payload.get("required"))
    req = payload.get("required", "")
    want = req.rsplit("== ", 1)[-1] if "== " in req else None
    if want in RANK:
        return 1 if d.action != want else 0
    return 1
