"""C12 — same verdict for Claude Code, Gemini CLI and Cursor; envelopes conform."""
from __future__ import annotations

import collections
import json
import os

import corr_hook as CH
import hookrun as H
from common import rng

ID = "C12"
PROP_FILES = ["C12"]
RULE = (
    "correspondence: the hook subprocess vs Model/Hook over the cross product of input shapes, --claude/--gemini/--cursor flag sets and DIPPY_* values (unset, 1, true, yes, YES, 0, empty, garbage). "
    "search: the same command (allow / ask / deny / MCP / config-error / parse-error classes) sent in the three host shapes, auto-detected and with explicit flags: decision and reason must be identical, "
    "each envelope must have exactly its host's keys and vocabulary, the envelope kind must follow flag/env precedence claude > gemini > cursor computed independently, all Gemini tool-name aliases behave like Bash."
)
TRUSTED = ["T1 subprocess correspondence (corr_hook.py)", "host envelope schemas transcribed from docs/hook-systems"]
ASSUMES = ["the command text, cwd and permission mode are the same in the three inputs (that is what 'a given command, configuration and cwd' fixes)"]

KEYS = {
    "claude": {"hookSpecificOutput"},
    "gemini": {"decision", "reason"},
    "cursor": {"permission", "user_message", "agent_message", "userMessage", "agentMessage"},
}


def correspondence(ctx):
    n = ctx.scale(450, 10000) * (2 if ctx.broken else 1)
    return [CH.corr_hook(ctx.model, rng("c12-hook"), n)]


def envelope_kind(j):
    if not isinstance(j, dict) or not j:
        return None
    for k, keys in KEYS.items():
        if set(j) == keys:
            if k == "claude":
                h = j["hookSpecificOutput"]
                if not (isinstance(h, dict) and set(h) == {"hookEventName", "permissionDecision", "permissionDecisionReason"} and h["hookEventName"] == "PreToolUse" and h["permissionDecision"] in ("allow", "ask", "deny") and isinstance(h["permissionDecisionReason"], str) and h["permissionDecisionReason"].startswith("🐤 ")):
                    return "malformed"
            if k == "gemini" and not (j["decision"] in ("allow", "ask", "deny") and isinstance(j["reason"], str) and j["reason"].startswith("🐤 ")):
                return "malformed"
            if k == "cursor" and not (j["permission"] in ("allow", "ask", "deny") and len({j[x] for x in ("user_message", "agent_message", "userMessage", "agentMessage")}) == 1 and j["user_message"].startswith("🐤 ")):
                return "malformed"
            return k
    return "malformed"


def expected_explicit(args, env):
    def flag(n):
        return env.get(n, "").lower() in ("1", "true", "yes")

    if "--claude" in args or flag("DIPPY_CLAUDE"):
        return "claude"
    if "--gemini" in args or flag("DIPPY_GEMINI"):
        return "gemini"
    if "--cursor" in args or flag("DIPPY_CURSOR"):
        return "cursor"
    return None


def search(ctx):
    r = rng("c12-search")
    stats = collections.Counter()
    vios = []
    samples = []
    w = CH.World()
    try:
        cmds = ["ls", "rm x", "denied", "askme", "git status", "git push", "ls > /tmp/zz", "'unterminated", "", "projdeny", "projok", "echo $(rm x)", "ls | cat; pwd"]
        n = ctx.scale(60, 1500) * (3 if ctx.broken else 1)
        jobs, metas = [], []
        # another project with rules of its own: nothing a host puts into the environment or into fields the hook has no use
        # for may make one host's verdict come from there
        other = os.path.join(w.s.root, "otherproj")
        os.makedirs(other, exist_ok=True)
        with open(os.path.join(other, ".dippy"), "w") as f:
            f.write('deny ls "listing is off in the other project"\nallow rm x\ndeny projok\n')
        host_env_names = ["CLAUDE_PROJECT_DIR", "GEMINI_PROJECT_DIR", "CURSOR_PROJECT_DIR", "CURSOR_WORKSPACE", "GEMINI_CWD", "CLAUDE_WORKING_DIR", "PROJECT_DIR", "PWD", "OLDPWD", "INIT_CWD"]
        for _ in range(n):
            cmd = r.pick(cmds)
            cwd = r.pick([w.proj, w.proj + "/sub", w.s.home, None])  # None: the payload carries no cwd (the process cwd counts)
            pm = r.pick([None, None, None, "default", "bypassPermissions"])
            envx = {"DIPPY_CONFIG": "/proc/self/mem"} if r.chance(0.08) else {}
            if r.chance(0.35):
                for name in r.sample(host_env_names, r.randint(1, 2)):
                    envx[name] = other
                stats["host_env_groups"] += 1
            gem_tool = r.pick(["shell", "run_shell", "run_shell_command", "execute_shell"])
            shapes = {
                "claude": {"tool_name": "Bash", "tool_input": {"command": cmd}, "cwd": cwd},
                "gemini": {"tool_name": gem_tool, "tool_input": {"command": cmd}, "cwd": cwd},
                "cursor": {"command": cmd, "cwd": cwd},
            }
            if r.chance(0.5):
                # the payloads the hosts really send (docs/hook-systems): every common field present
                shapes["claude"].update({"session_id": "abc123", "transcript_path": w.s.home + "/t.jsonl", "hook_event_name": "PreToolUse", "tool_use_id": "toolu_01"})
                shapes["gemini"].update({"session_id": "abc123", "transcript_path": w.s.home + "/t.jsonl", "hook_event_name": "BeforeTool", "timestamp": "2025-12-01T10:30:00Z"})
                shapes["cursor"].update({"conversation_id": "c-1", "generation_id": "g-1", "model": "claude-4-sonnet", "hook_event_name": "beforeShellExecution", "cursor_version": "2.1.46", "workspace_roots": [r.pick([cwd or w.proj, other])], "user_email": "u@example.com"})
                stats["full_payload_groups"] += 1
            if cwd is None:
                for v in shapes.values():
                    del v["cwd"]
                stats["no_cwd_groups"] += 1
            for host, v in shapes.items():
                if pm:
                    v["permission_mode"] = pm
                for args in ([], ["--" + host]):
                    jobs.append({"stdin": json.dumps(v).encode(), "home": w.s.home, "args": args, "env_extra": envx, "cwd": w.proj})
                    metas.append((cmd, cwd, pm, host, args, envx, "hook_event_name" in v))
        # mode precedence probes: a claude-shaped input under every flag/env combination
        for _ in range(ctx.scale(60, 1200)):
            args = list(r.pick(CH.FLAG_SETS))
            envx = {}
            for name in ("DIPPY_CLAUDE", "DIPPY_GEMINI", "DIPPY_CURSOR"):
                v = r.pick(CH.ENV_VALUES)
                if v is not None:
                    envx[name] = v
            host = r.pick(["claude", "gemini", "cursor"])
            v = {"claude": {"tool_name": "Bash", "tool_input": {"command": "rm x"}, "command": "rm x", "cwd": w.proj}, "gemini": {"tool_name": "shell", "tool_input": {"command": "rm x"}, "command": "rm x", "cwd": w.proj}, "cursor": {"command": "rm x", "cwd": w.proj}}[host]
            if r.chance(0.5):
                # the host's own pre-execution event name travels with the payload even when the mode is forced to another host
                v = dict(v, hook_event_name={"claude": "PreToolUse", "gemini": "BeforeTool", "cursor": "beforeShellExecution"}[host], session_id="abc123")
            jobs.append({"stdin": json.dumps(v).encode(), "home": w.s.home, "args": args, "env_extra": envx, "cwd": w.proj})
            metas.append(("rm x", w.proj, None, "probe:" + host, args, envx, "hook_event_name" in v))
        results = H.run_many(jobs)
        groups = collections.defaultdict(list)
        for meta, (rc, out, err) in zip(metas, results):
            stats["evaluations"] += 1
            cmd, cwd, pm, host, args, envx, full = meta
            got = CH.parse_stdout(out)
            j = got[0]["json"] if len(got) == 1 and "json" in got[0] else None
            kind = envelope_kind(j)
            base = {"input": {"command": cmd, "cwd": None if cwd is None else cwd.replace(w.s.root, "<root>"), "permission_mode": pm, "host_shape": host, "full_payload": full, "argv": args, "env": envx}, "observed": {"exit": rc, "stdout": out[:400].decode("utf-8", "replace")}}
            if rc != 0 or kind == "malformed" or j is None:
                vios.append(dict(base, required="exit 0 and a conforming envelope (or {})", oracle="envelope-schema"))
                continue
            stats["envelope:" + str(kind)] += 1
            if host.startswith("probe:"):
                exp = expected_explicit(args, envx)
                want_kind = exp or host.split(":")[1]
                if kind is None and (host != "probe:cursor" or want_kind == "cursor"):
                    # (a Cursor-shaped payload has no tool_name: read as Claude or Gemini input it is not a shell tool and gets {})
                    vios.append(dict(base, required=f"`rm x` before execution always gets a verdict, in the {want_kind} envelope, whatever mode is forced", oracle="mode-precedence(no verdict)"))
                elif kind is not None and kind != want_kind:
                    vios.append(dict(base, required=f"mode = explicit flag/env first (claude > gemini > cursor), input shape otherwise: {want_kind} envelope", oracle="mode-precedence"))
                continue
            want_kind = host
            if kind is not None and kind != want_kind:
                vios.append(dict(base, required=f"{want_kind} envelope for {want_kind}-shaped input", oracle="envelope-kind"))
            dec = H.decision_of(out)
            groups[(cmd, cwd, pm, json.dumps(envx, sort_keys=True))].append((host + ("+full" if full else ""), args, dec, base))
        for key, items in groups.items():
            decs = {(d[0], d[1]) for _, _, d, _ in items}
            stats["groups"] += 1
            if len(decs) > 1:
                vios.append({"input": {"command": key[0], "cwd": None if key[1] is None else key[1].replace(w.s.root, "<root>"), "process_cwd": "<root>/proj", "permission_mode": key[2], "env": json.loads(key[3])}, "observed": {"per_host": [[h, a, list(d)] for h, a, d, _ in items]}, "required": "verdict and reason identical for the three hosts", "oracle": "verdict-mode-free"})
            elif len(samples) < 3:
                samples.append({"command": key[0], "verdict_all_hosts": list(decs)[0][0], "reason": list(decs)[0][1]})
    finally:
        w.close()
    return {"violations": vios[:5], "evaluations": stats["evaluations"], "distinct_nontrivial": stats["groups"], "stats": dict(stats), "samples": samples, "oracle": "three hosts x flags: equal verdict+reason, envelope schema, mode precedence"}


def matches_finding(entry, v) -> bool:
    return False


def finding_still_fails(ctx, entry) -> bool:
    return False


def replay(payload) -> int:
    print(json.dumps(payload.get("input"), ensure_ascii=False))
    print("observed:", payload.get("observed"), "\nrequired:", payload.get("required"))
    print("(re-run ./check C12 with the same VERIF_SEED to rebuild the scratch world)")
    return 1
