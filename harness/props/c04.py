"""C04 — wrappers and launchers never launder a command."""
from __future__ import annotations

import collections
import importlib
import json
import os
import subprocess
from concurrent.futures import ThreadPoolExecutor
from pathlib import Path

import bashgen as B
import corr_config as CC
from common import has_surrogate, rng
from corr_analyzer import correspondence as corr_run
from jail import Jail

ID = "C04"
PROP_FILES = ["C04"]
RULE = (
    "correspondence: bash_quote/bash_join vs the model on arbitrary strings (Unicode, every shell metacharacter); classify() of the launcher handlers "
    "shell/env/xargs/find/fd/arch/caffeinate/script and the docker/kubectl exec extraction vs their Lean models on token lists drawn from each handler's own option "
    "vocabulary; T0 cross-check of every flag table, the safe-character string and the assignment regex; analyze() vs the model on wrapper command lines (World records "
    "classify). search: (1) real bash re-reads bash_join(ts) as ts, and never as an assignment prefix; (2) for every wrapper x option spelling x inner command, "
    "rank(analyze(W(c))) >= rank(analyze(c)); pure wrappers give exactly the inner verdict; (3) every W(c) that is auto-approved is executed in a jail with the real "
    "env/xargs/find/timeout/nice/nohup/sh/bash and stub inner programs: a stub Dippy would not approve on its own must never run."
)
TRUSTED = ["T0 translator (flag tables, RUNS_SCRIPTS, safe characters)", "T1 correspondence harness", "real GNU env/xargs/find/timeout/nice/nohup and bash 5.2 in the jail (T2: the option grammar of the real tools is validated, not proved)"]
ASSUMES = [
    "handlers not modelled in Lean (fzf; uv apart from `uv run`; docker/kubectl apart from exec extraction) are oracles of the model (World.classify); their delegation is covered by the monotonicity search only",
    "arch, caffeinate, BSD script, fd, uv, fzf, docker, kubectl are not installed here: their option grammar is taken from the handlers' own tables (model-relative claim)",
    "GNU long-option abbreviations (--split-s=…) are outside what the handlers recognise (see DESIGN.md)",
]
CWD = "/tmp/probe"
RANK = {"allow": 0, "ask": 1, "deny": 2}

MODELLED = ["shell", "env", "xargs", "find", "fd", "arch", "caffeinate", "script", "uvrun", "tar"]
NONAPPROVABLE = {"rm", "foo", "mv", "chmod", "curl", "denied", "KILL", "FOO=1"}
STUBS = ["ls", "cat", "git", "grep", "wc", "head", "rm", "foo", "mv", "chmod", "curl", "denied", "true"]
REAL = ["env", "xargs", "find", "timeout", "nice", "nohup", "sh", "bash", "printf", "echo"]

ASSIGN_RE = r"[A-Za-z_][A-Za-z0-9_]*(\[[^\]]*\])?\+?="
META = list(" \t\n'\"\\|&;()<>$`*?[]#~{}!^%,+=@:/-_.") + ["é", "ß", "中", "١", "²", "\u00a0", "\u2028", "ａ", "\U0001f600"]


def gen_string(r) -> str:
    k = r.random()
    if k < 0.08:
        return ""
    if k < 0.3:
        return r.pick(["ls", "rm", "a b", "it's", "FOO=1", "a=b", "x[1]=2", "_v+=3", "{}", ";", "#", "$(rm x)", "`id`", "-h", "--help", "a\nb", "'", "''", "\"", "\\", "~", "*"])
    return "".join(r.pick(META) if r.chance(0.5) else r.pick(list("abcXYZ019")) for _ in range(r.randint(1, 7)))


VOCAB_COMMON = ["--", "-", "-x", "--foo=bar", "A=1", "ls", "rm", "x y", "", "{}", ";", "+", "5", "file", "it's", "#", "FOO=1", "-h", "--help"]
VOCAB = {
    "shell": ["-c", "-lc", "-cl", "-xec", "--norc", "-o", "pipefail", "ls -la", "rm x", "--c", "-e", "script.sh", "+c", "--rcfile", "--init-file", "-eo", "+O", "-O", "extglob", "+o", "+x", "./x.sh", "-eo-", "-o-", "+", "-oc", "+oc", "--posix"],
    "env": ["-S", "-Sls", "-S ls", "--split-string=ls -la", "--split-string", "--split-string=", "-i", "-u", "--unset", "--unset=X", "-C", "--chdir", "/tmp", "-iS", "-v", "  ", "-vu", "-vuX", "-iu", "-vvu", "-iC", "-iC/tmp", "-vS", "-vSls -la", "-uS", "-uCC", "-0", "-i0", "-Su", "-x", "-xu", "-ixuX", "--unset", "X", "-CS", "-"],
    "xargs": ["-n", "-n1", "-I", "-I{}", "-0", "-r", "-t", "--max-args=1", "-P", "-d", "-E", "-e", "-l", "-L", "-a", "-p", "-o", "--interactive", "--open-tty", "--interactive=x", "-ap", "-s", "--eof", "--replace", "-i", "-rn", "-rn1", "-rt", "-rp", "-to", "-tp", "-rts", "4096", "-rE", "EOF", "-rEx", "-tI{}", "-Ipo", "-np", "-pn", "-r0", "-0n1", "-xrn", "--", "-x"],
    "find": [".", "-name", "*.py", "-exec", "-execdir", "-ok", "-okdir", "-delete", "-print", "-o", "-type", "f"],
    "fd": ["-x", "--exec", "-X", "--exec-batch", "-e", "py", "pattern", "-H", ";", "-Hx", "-xrm", "--exec=rm", "--exec=", "--exec-batch=ls", "-Ix", "-HX", "--execx", "-E", "x", "\\;", "--exec=ls -la"],
    "arch": ["-32", "-64", "-c", "-h", "-arch", "--arch", "-d", "-e", "-arm64", "-x86_64", "arm64", "VAR=1", "-foo"],
    "caffeinate": ["-d", "-i", "-m", "-s", "-u", "-t", "-w", "-disu", "-dx", "10", "-"],
    "uvrun": ["run", "--python", "-p", "3.12", "--with", "pkg", "--project", ".", "-m", "--script", "--no-project", "--", "--env-file", ".env", "--with=x", "python", "-q"],
    "tar": ["-tf", "a.tar", "-xf", "-czf", "tf", "xvf", "cf", "--list", "--extract", "--delete", "--to-command", "--to-command=cat", "--to-command=", "--use-compress-program=gzip", "--use-compress-program", "-I", "zstd", "-F", "--checkpoint-action=exec=x",
            "--rsh-command=ssh", "--info-script", "--use-compress-prog=rm x", "--use", "--rsh=x", "--checkpoint", "--checkpoint=10", "--checkpoint-a=exec=x", "--info-s", "--new", "--newer", "--new-volume=x", "--u", "--", "--=", "--to-comm=cat", "-C", "/tmp", "-v", "--get", "--append", "-r", "-u", "-tvf", "-O", "--to-command=rm x", "ls", "--create"],
    "script": ["-t", "-T", "-a", "-d", "-e", "-F", "-k", "-p", "-q", "-r", "-ap", "--foo", "out.txt", "/dev/null", "--p", "-c", "-qc", "--command", "-qt", "-t5", "-qt5", "-tq", "-qTa", "-E", "-qx", "-aq", "rm x"],
}


def corr_quote(model, r, n):
    from dippy.core.bash import bash_join, bash_quote

    acc = CC.Acc("bash_quote / bash_join")
    items = []
    for _ in range(n):
        if r.chance(0.5):
            s = gen_string(r)
            items.append(("q", s))
        else:
            items.append(("j", [gen_string(r) for _ in range(r.randint(0, 4))]))
    items = [it for it in items if not has_surrogate(it[1] if it[0] == "q" else "".join(it[1]))]
    reps = model.batch([{"op": "bashquote", "s": x} if k == "q" else {"op": "bashjoin", "tokens": x} for k, x in items])
    for (k, x), rep in zip(items, reps):
        impl = bash_quote(x) if k == "q" else bash_join(x)
        nontrivial = impl != (x if k == "q" else " ".join(x))
        acc.case([k, x], impl, rep, nontrivial=nontrivial, tag=("quoted" if nontrivial else "plain"), sample={"input": x, "output": impl})
    return acc.result()


def corr_htables(model):
    acc = CC.Acc("T0 handler tables vs imported module objects")
    t = model.ask({"op": "htables"})
    for key, val in sorted(t.items()):
        if "." in key:
            modname, attr = key.split(".")
            obj = getattr(importlib.import_module("dippy.cli." + modname), attr, None)
            if isinstance(obj, dict):
                impl = [[k, v] for k, v in obj.items()]
            elif isinstance(obj, str):
                impl = obj
            else:
                impl = sorted(obj) if obj is not None else None
            acc.case(key, impl, val, sample={"table": key})
    import dippy.core.analyzer as AN
    import dippy.core.bash as BA

    acc.case("safe chars (model constant = source)", t["bashSafeExtra"], t["modelSafeExtra"])
    acc.case("quote replacement", ["'", "'\"'\"'"], t["bashQuoteReplace"])
    acc.case("_ASSIGNMENT_SHAPE (bash.py) is the expression the model implements", ASSIGN_RE, t["bashAssignShape"])
    acc.case("_ASSIGNMENT_RE (analyzer.py) is the expression the model implements", ASSIGN_RE, t["analyzerAssignRe"])
    acc.case("compiled patterns", [BA._ASSIGNMENT_SHAPE.pattern, AN._ASSIGNMENT_RE.pattern], [ASSIGN_RE, ASSIGN_RE])
    import dippy.cli as CLI

    runs = sorted(c for c, m in CLI.KNOWN_HANDLERS.items() if getattr(importlib.import_module("dippy.cli." + m), "RUNS_SCRIPTS", False))
    acc.case("RUNS_SCRIPTS commands", runs, t["runsScriptsCommands"])
    acc.case("_WRAPPER_FLAGS_WITH_ARG", sorted([k, sorted(v)] for k, v in AN._WRAPPER_FLAGS_WITH_ARG.items()), sorted(t["wrapperFlagsWithArg"]))
    return acc.result()


def ser_c(c):
    return {"action": c.action, "inner": c.inner_command, "desc": c.description, "remote": bool(c.remote)}


def corr_handlers(model, r, n):
    from dippy.cli import HandlerContext

    acc = CC.Acc("launcher handlers' classify() vs Lean models")
    mods = {m: importlib.import_module("dippy.cli." + {"uvrun": "uv"}.get(m, m)) for m in MODELLED}
    items = []
    for _ in range(n):
        m = r.pick(MODELLED)
        base = r.pick(mods[m].COMMANDS)
        voc = VOCAB[m] + VOCAB_COMMON
        toks = [base] + [r.pick(voc) if r.chance(0.9) else gen_string(r) for _ in range(r.randint(0, 7))]
        if m == "uvrun":
            toks = ["uv", "run"] + toks[1:]  # only the `run` action is modelled
        if has_surrogate("".join(toks)):
            continue
        items.append((m, toks))
    reps = model.batch([{"op": "wclassify", "name": m, "tokens": t} for m, t in items])
    for (m, toks), rep in zip(items, reps):
        try:
            impl = ser_c(mods[m].classify(HandlerContext(toks)))
        except Exception as e:  # noqa: BLE001
            impl = "exc:" + type(e).__name__
        acc.case([m, toks], impl, rep, nontrivial=isinstance(impl, dict) and impl["action"] == "delegate", tag=m + ":" + (impl["action"] if isinstance(impl, dict) else "exc"), sample={"handler": m, "tokens": toks, "classification": impl})
    # exec extraction
    import dippy.cli.docker as D
    import dippy.cli.kubectl as K

    # kubectl: which command lines are an exec at all (the action is the first word that is neither a flag nor a flag's value)
    from dippy.core.bash import bash_join

    kvoc = ["exec", "get", "config", "view", "rollout", "status", "--user", "--as", "--kubeconfig", "-s", "--server", "-n", "--namespace", "ns", "-v", "--token", "--context", "--insecure-skip-tls-verify",
            "--user=x", "-it", "-c", "pod", "--", "ls", "rm", "x y", "-o", "json", "--request-timeout", "5s", "-", "--v", "delete", "auth", "can-i"]
    items = [["kubectl"] + [r.pick(kvoc) for _ in range(r.randint(0, 8))] for _ in range(n // 2)]
    reps = model.batch([{"op": "kubectl_delegates", "tokens": t} for t in items])
    for toks, rep in zip(items, reps):
        c = K.classify(HandlerContext(toks))
        impl = c.inner_command if c.action == "delegate" else None
        mod = bash_join(rep) if isinstance(rep, list) else rep
        acc.case(["kubectl action", toks], impl, mod, nontrivial=impl is not None, tag="kubectl-action:" + c.action)
    voc = ["--", "-it", "-i", "-t", "-e", "A=1", "-eA=1", "--env", "--env=A=1", "-w", "/tmp", "-u", "root", "-uroot", "-itu", "-itw", "--user=root", "--detach-keys", "x", "--privileged", "c1", "pod", "ls", "rm", "x y", "-c", "container", "-n", "ns", "--", "sh", "-d"]
    items = [(r.pick(["docker", "kubectl"]), [r.pick(voc) for _ in range(r.randint(0, 7))]) for _ in range(n // 2)]
    reps = model.batch([{"op": "execinner", "name": m, "tokens": t} for m, t in items])
    for (m, toks), rep in zip(items, reps):
        impl = (D if m == "docker" else K)._extract_exec_inner_command(list(toks))
        acc.case([m + " exec", toks], impl, rep, nontrivial=impl is not None, tag=m + "-exec:" + ("some" if impl else "none"))
    return acc.result()


# ------------------------------------------------------------------ wrapper forms

INNERS_OK = [["2ok", "-l"], ["grep", "-v", "x", "f"], ["ls", "-v"], ["ls"], ["ls", "-la"], ["cat", "f"], ["git", "status"], ["echo", "hi"], ["ls", "a b"], ["ls", "#"], ["ls", ";"], ["grep", "x", "f"]]
INNERS_BAD = [["rm", "-rfv", "x"], ["mv", "-v", "a", "b"], ["foo", "-V"], ["chmod", "-Rv", "777", "f"], ["rm", "x"], ["foo"], ["mv", "a", "b"], ["curl", "http://x"], ["chmod", "777", "f"], ["rm", "-rf", "a b"], ["rm", "$(x)"], ["denied"], ["foo", "-h"], ["rm", "--help", "x"], ["7zdenied", "x", "a.7z"], ["7zdenied"], ["5s", "x"], ["30", "x"], ["1.5", "rm"]]
TRAIL = [[], [], [], ["-h"], ["--help"], ["--version"], ["x", "-h"]]


LETTERS = "abcdefghijklmnopqrstuvwxyzABCDEFGHIJKLMNOPQRSTUVWXYZ"


def pick_inner(r, p_ok=0.35):
    """an inner argv; sometimes with a random short-option cluster after the program name (any letter may
    collide with an option of the wrapper)"""
    c = list(r.pick(INNERS_OK if r.chance(p_ok) else INNERS_BAD))
    if r.chance(0.3):
        c.insert(1, "-" + "".join(r.pick(LETTERS) for _ in range(r.randint(1, 3))))
    return c + list(r.pick(TRAIL))


def q(ts):
    from dippy.core.bash import bash_join

    return bash_join(ts)


def sq(s):
    """a single-quoted shell word holding s"""
    return "'" + s.replace("'", "'\"'\"'") + "'"


def forms(r, c):
    """yield (label, command line, pure?, jail_ok?, finding-tag) for the inner argv c"""
    cs = q(c)
    pure = [("time", "time " + cs), ("timeout N", "timeout 5 " + cs), ("nice", "nice " + cs), ("nice -n N", "nice -n 5 " + cs), ("nohup", "nohup " + cs), ("command", "command " + cs), ("command --", "command -- " + cs)]
    for lab, t in pure:
        yield lab, t, True, True, None
    other = [
        ("assign prefix", "A=1 " + cs), ("assign prefix x2", "A=1 B='x y' " + cs),
        ("time -p", "time -p " + cs), ("timeout -k", "timeout -k 3 5 " + cs), ("timeout --signal=", "timeout --signal=KILL 5 " + cs), ("timeout -s", "timeout -s KILL 5 " + cs), ("timeout 0.5", "timeout 0.5 " + cs),
        ("nice -5", "nice -5 " + cs), ("nice --adjustment=", "nice --adjustment=5 " + cs), ("command -p", "command -p " + cs),
        ("nested pure", "nice nohup timeout 5 " + cs), ("nested env nice", "env nice " + cs),
        ("env", "env " + cs), ("env A=1", "env A=1 " + cs), ("env -u", "env -u X " + cs), ("env --unset=", "env --unset=X " + cs), ("env -C", "env -C . " + cs), ("env --", "env -- " + cs), ("env A=1 --?", "env A=1 B=2 " + cs),
        ("env -S", "env -S " + sq(cs)), ("env -Sattached", "env " + sq("-S" + cs)), ("env --split-string=", "env " + sq("--split-string=" + cs)), ("env --split-string", "env --split-string " + sq(cs)), ("env -S + args", "env -S " + sq(c[0]) + " " + q(c[1:]) if len(c) > 1 else "env -S " + sq(cs)),
        ("env -vS", "env -vS " + sq(cs)), ("env -u X -S", "env -u X -S " + sq(cs)),
        ("xargs", "echo a | xargs " + cs), ("xargs -n 1", "echo a | xargs -n 1 " + cs), ("xargs -n1", "echo a | xargs -n1 " + cs), ("xargs -I{}", "echo a | xargs -I{} " + cs + " {}"), ("xargs -I {}", "echo a | xargs -I {} " + cs),
        ("xargs -0", "printf 'a\\0' | xargs -0 " + cs), ("xargs -r", "echo a | xargs -r " + cs), ("xargs -t", "echo a | xargs -t " + cs), ("xargs --max-args=1", "echo a | xargs --max-args=1 " + cs), ("xargs -P 2", "echo a | xargs -P 2 " + cs),
        ("xargs -d", "echo a | xargs -d '\\n' " + cs), ("xargs --", "echo a | xargs -- " + cs), ("xargs -E", "echo a | xargs -E EOF " + cs), ("xargs -rtn1", "echo a | xargs -rtn1 " + cs), ("xargs -i", "echo a | xargs -i " + cs + " {}"),
        ("sh -c", "sh -c " + sq(cs)), ("bash -c", "bash -c " + sq(cs)), ("bash -lc", "bash -lc " + sq(cs)), ("bash -xc", "bash -xc " + sq(cs)), ("bash --norc -c", "bash --norc -c " + sq(cs)), ("bash -o errexit -c", "bash -o errexit -c " + sq(cs)),
        ("sh -c name args", "sh -c " + sq(cs) + " name a b"), ("sh -c … -h", "sh -c " + sq(cs) + " -h"), ("sh -c … --help", "sh -c " + sq(cs) + " --help"), ("sh -e -c", "sh -e -c " + sq(cs)),
        ("find -exec ;", "find . -maxdepth 0 -exec " + cs + " \\;"), ("find -exec +", "find . -maxdepth 0 -exec " + cs + " {} +"), ("find -execdir", "find . -maxdepth 0 -execdir " + cs + " \\;"),
        ("find 2 clauses", "find . -maxdepth 0 -exec ls {} \\; -exec " + cs + " \\;"), ("find -o 2 clauses", "find . -maxdepth 0 -name nope -exec ls \\; -o -exec " + cs + " \\;"), ("find 3 clauses", "find . -maxdepth 0 -exec ls \\; -exec cat f \\; -execdir " + cs + " \\;"),
        ("find -exec sh -c", "find . -maxdepth 0 -exec sh -c " + sq(cs) + " \\;"), ("xargs sh -c", "echo a | xargs sh -c " + sq(cs)), ("env bash -c", "env A=1 bash -c " + sq(cs)),
    ]
    for lab, t in other:
        yield lab, t, False, True, None
    # option prefixes drawn from the tools' own grammars (GNU env / xargs / timeout / nice as installed here): clusters,
    # attached and separate option values, values that end in letters which are themselves option letters
    names = ["X", "CC", "RUSTC", "LC_NUMERIC", "FOOu", "aS", "CFLAGS", "u", "C", "S", "vu", "iC"]

    def env_opts():
        out = []
        for _ in range(r.randint(1, 3)):
            k = r.randrange(7)
            if k == 0:
                out.append("-v")
            elif k == 1:
                out.append("-u" + r.pick(names))
            elif k == 2:
                out += ["-u", r.pick(names)]
            elif k == 3:
                out.append("-" + r.pick(["v", "vv"]) + "u" + r.pick(names))
            elif k == 4:
                out += ["-" + r.pick(["v", "vv"]) + "u", r.pick(names)]
            elif k == 5:
                out.append("--unset=" + r.pick(names))
            else:
                out.append(r.pick(["-C.", "-C/tmp", "--chdir=.", "-vC."]) if r.chance(0.7) else "A" + r.pick(names) + "=1")
        return " ".join(out)

    def xargs_opts():
        out = []
        for _ in range(r.randint(1, 3)):
            v = r.pick([("n", "1"), ("L", "1"), ("P", "2"), ("s", "4096"), ("E", "EOF"), ("E", "En"), ("d", "x"), ("I", "R")])
            cl = r.pick(["", "r", "t", "rt"])
            if v[0] == "I":
                continue
            out += ["-" + cl + v[0] + v[1]] if r.chance(0.5) else ["-" + cl + v[0], v[1]]
        return " ".join(out) or "-r"

    def timeout_opts():
        out = []
        for _ in range(r.randint(0, 2)):
            out += r.pick([["-k", "3"], ["-k3"], ["--kill-after=3"], ["-s", "KILL"], ["-sKILL"], ["--signal=TERM"], ["-v"], ["--foreground"], ["--preserve-status"], ["-vk", "3"], ["-vsINT"]])
        return " ".join(out + [r.pick(["5", "0.5", "5s", "1m", "1.5s"])])

    def nice_opts():
        return r.pick(["-n 5", "-n5", "-5", "--adjustment=5", "-n -5", "-19", "--adjustment 3", "-n 0"])

    for lab, t in [("env OPTS(grammar)", "env " + env_opts() + " " + cs), ("xargs OPTS(grammar)", "echo a | xargs " + xargs_opts() + " " + cs),
                   ("timeout OPTS(grammar)", "timeout " + timeout_opts() + " " + cs), ("nice OPTS(grammar)", "nice " + nice_opts() + " " + cs),
                   ("env OPTS nice OPTS", "env " + env_opts() + " nice " + nice_opts() + " " + cs)]:
        yield lab, t, False, True, None
    # words after the -c string are $0, $1 … of the inner command, whatever they look like
    cl = lambda: "-" + "".join(r.pick(LETTERS) for _ in range(r.randint(1, 3)))  # noqa: E731
    for lab, t in [("sh -c … -CLUSTER", "sh -c " + sq(cs) + " " + cl()), ("bash -c … _ -CLUSTER", "bash -c " + sq(cs) + " _ " + cl() + " " + cl()), ("sh -c … --long", "sh -c " + sq(cs) + " --" + r.pick(["norc", "posix", "login", "verbose", "noexec", "dry-run"])),
                   ("env sh -c … -CLUSTER", "env A=1 sh -c " + sq(cs) + " " + cl()), ("bash -CLUSTERc", "bash " + cl() + "c " + sq(cs))]:
        yield lab, t, False, True, None
    # a cluster appended after the inner command belongs to the inner command: the reference is c + [cluster]
    for lab, fmt in [("xargs … -CLUSTER", "echo a | xargs {cs} {k}"), ("find -exec … -CLUSTER", "find . -maxdepth 0 -exec {cs} {k} \\;"), ("env … -CLUSTER", "env {cs} {k}"), ("timeout … -CLUSTER", "timeout 5 {cs} {k}")]:
        k1 = cl()
        yield lab, fmt.format(cs=cs, k=k1), False, True, "inner+=" + k1
    nojail = [
        ("env -i", "env -i " + cs), ("fd -x", "fd -x " + cs), ("fd pat -X", "fd -e py -X " + cs), ("uv run", "uv run " + cs), ("uv run --with", "uv run --with x " + cs), ("arch", "arch -arm64 " + cs), ("arch -e", "arch -e A=1 " + cs),
        ("caffeinate", "caffeinate -i " + cs), ("caffeinate -t", "caffeinate -t 10 " + cs), ("script", "script -q /dev/null " + cs), ("tar --to-command", "tar -xf a.tar --to-command=" + sq(cs)), ("tar --to-command sep", "tar -xf a.tar --to-command " + sq(cs)),
        ("fzf execute()", "fzf --bind " + sq("enter:execute(" + cs + ")")), ("fzf become()", "fzf --bind=" + sq("enter:become(" + cs + ")")),
        ("docker exec", "docker exec c1 " + cs), ("docker exec -it", "docker exec -it c1 " + cs), ("docker exec -e", "docker exec -e A=1 -u root c1 " + cs), ("docker exec --", "docker exec -- c1 " + cs), ("docker exec -itw", "docker exec -itw /tmp c1 " + cs),
        ("podman exec", "podman exec c1 " + cs), ("kubectl exec", "kubectl exec pod -- " + cs), ("kubectl exec -it -c", "kubectl exec -it -n ns pod -c main -- " + cs), ("docker exec sh -c", "docker exec c1 sh -c " + sq(cs)),
    ]
    for lab, t in nojail:
        yield lab, t, False, False, None
    # decoys: an approvable command sits where a careless option scan would look for the inner command, while the
    # launcher really runs something else (the reference argv after "ref=")
    ref = lambda argv: "ref=" + json.dumps(argv)  # noqa: E731
    decoys = [
        ("bash SCRIPT -c decoy", "bash ./x.sh -c ls", ["./x.sh", "-c", "ls"]), ("sh SCRIPT -c decoy", "sh -e run.sh -c 'ls -la'", ["./run.sh"]), ("bash -- -c decoy", "bash -- -c ls", ["./-c", "ls"]),
        ("bash -o OPT SCRIPT", "bash -o errexit x.sh -c ls", ["./x.sh"]), ("bash --rcfile F SCRIPT", "bash --rcfile rc x.sh -c ls", ["./x.sh"]),
        ("script -c (util-linux)", "script -c " + sq(cs) + " ls", c), ("script -qc", "script -qc " + sq(cs) + " /dev/null ls", c), ("script --command", "script --command " + sq(cs) + " ls", c),
        ("script -qt N file", "script -qt 5 ls " + cs, c), ("script -t N file", "script -t 5 ls " + cs, c),
        ("uv run --env-file decoy", "uv run --env-file ls " + cs, c), ("uv run --index decoy", "uv run --index ls " + cs, c), ("uv run --config-file decoy", "uv run --config-file ls " + cs, c), ("uv run -C decoy", "uv run -C ls " + cs, c),
        ("kubectl --user decoy exec", "kubectl --user get exec pod -- " + cs, c), ("kubectl --kubeconfig decoy exec", "kubectl --kubeconfig get exec pod -- " + cs, c), ("kubectl -s decoy exec", "kubectl -s get exec pod -- " + cs, c),
        ("kubectl --as decoy exec", "kubectl --as get exec -it pod -- " + cs, c),
        ("tar -c --to-command decoy", "tar -cf /tmp/x.tar --to-command=" + sq("ls") + " /etc", ["tar", "-cf", "/tmp/x.tar", "/etc"]), ("tar -r --to-command decoy", "tar -rf x.tar --to-command ls f", ["tar", "-rf", "x.tar", "f"]),
        ("tar --delete --to-command decoy", "tar --delete -f x.tar --to-command=ls f", ["tar", "--delete", "-f", "x.tar", "f"]),
        ("fd 2 clauses", "fd -x ls \\; -x " + cs, c), ("fd 2 clauses quoted ;", "fd pat -x ls ';' -X " + cs, c), ("fd --exec=", "fd --exec=" + q(c[:1]) + " " + q(c[1:]), c), ("fd -Hx", "fd -Hx " + cs, c),
        ("fd -x attached", "fd -x" + q(c[:1]) + " " + q(c[1:]), c), ("fd --exec-batch=", "fd pat --exec-batch=" + q(c[:1]) + " " + q(c[1:]), c),
        ("tar abbreviated --use-compress-prog", "tar -xf a.tar --to-command=cat --use-compress-prog=" + sq(cs), ["tar", "-xf", "a.tar", "--use-compress-program=" + cs]), ("tar abbreviated --rsh", "tar -tf h:a.tar --rsh=" + sq(cs), ["tar", "-tf", "h:a.tar", "--rsh-command=" + cs]),
        ("timeout -vk N", "timeout -vk 3 5s " + cs, c), ("timeout -vs SIG", "timeout -vs KILL 5 " + cs, c),
        ("strace -e decoy", "strace -e ls " + cs, c), ("strace -p decoy", "strace -f -p ls " + cs, c), ("ltrace -n decoy", "ltrace -n ls " + cs, c), ("strace -s decoy", "strace -s ls -f " + cs, c), ("ltrace -e decoy", "ltrace -e ls " + cs, c),
        ("fzf 2 actions paren+colon", "fzf --bind " + sq("enter:execute(ls),ctrl-x:execute:" + cs), c), ("fzf 2 actions chained", "fzf --bind " + sq("enter:execute(ls)+execute-silent(" + cs + ")"), c),
        ("fzf 2 actions colon last", "fzf --bind " + sq("ctrl-a:become(ls),enter:become:" + cs), c), ("fzf 2 binds", "fzf --bind " + sq("a:execute(ls)") + " --bind " + sq("b:execute(" + cs + ")"), c),
    ]
    for lab, t, argv in decoys:
        yield lab, t, False, False, ref(argv)
    # the command text is computed by the inner shell: nothing to compare with, only to run
    yield "bash -c \"$0\" (jail only)", "bash -c '\"$0\" \"$@\"' " + cs, False, True, "nomono"
    yield "strace -o FILE (finding)", "strace -o ls " + cs, False, False, "F04ae"
    yield "ltrace -o FILE (finding)", "ltrace -o ls " + cs, False, False, "F04ae"
    yield "xargs -e (finding)", "echo a | xargs -e " + cs, False, True, "F04d"
    yield "xargs -l (finding)", "echo a | xargs -l " + cs, False, True, "F04d"


def _cfg():
    from dippy.core.config import parse_config

    return parse_config(B.CONFIG_TEXT)


def correspondence(ctx):
    k = 2 if ctx.broken else 1
    r = rng("c04-corr")
    cfg = _cfg()

    def cases():
        for _ in range(ctx.scale(150, 4000) * k):
            c = pick_inner(r, 0.5)
            fs = list(forms(r, c))
            for lab, t, _p, _j, _f in r.sample(fs, 6):
                yield t, None

    res = corr_run(ctx.model, cases(), cfg)
    res["area"] = "analyze() on wrapper/launcher command lines (World records classify) (T1-b)"
    return [corr_htables(ctx.model), corr_quote(ctx.model, rng("c04-q"), ctx.scale(4000, 150000) * k), corr_handlers(ctx.model, rng("c04-h"), ctx.scale(5000, 150000) * k), res]


def bash_words(joined: str):
    p = subprocess.run(["/usr/bin/bash", "--norc", "--noprofile", "-c", "printf '%s\\0' " + joined], capture_output=True, timeout=20, env={"PATH": "/usr/bin:/bin", "LANG": "C.UTF-8"})
    if p.returncode != 0:
        return None
    parts = p.stdout.split(b"\0")
    return [x.decode("utf-8", "surrogateescape") for x in parts[:-1]]


def search(ctx):
    from dippy.core.analyzer import analyze
    from dippy.core.bash import bash_join

    cfg = _cfg()
    r = rng("c04-search")
    stats = collections.Counter()
    vios = []
    samples = []
    k = 3 if ctx.broken else 1
    # (1) real bash reads bash_join(ts) back as ts
    nq = ctx.scale(250, 6000) * k
    jobs = []
    for _ in range(nq):
        ts = [gen_string(r) for _ in range(r.randint(1, 4))]
        if any("\0" in t or has_surrogate(t) for t in ts):
            continue
        jobs.append(ts)

    def rt(ts):
        try:
            return ts, bash_words(bash_join(ts))
        except Exception as e:  # noqa: BLE001
            return ts, "exc:" + repr(e)

    with ThreadPoolExecutor(16) as ex:
        for ts, got in ex.map(rt, jobs):
            stats["evaluations"] += 1
            stats["quote_roundtrips"] += 1
            # printf is the command word here, so ts are all arguments: compare whole vector
            if got != ts:
                vios.append({"input": {"tokens": ts, "joined": bash_join(ts)}, "observed": {"bash_words": got}, "required": "bash reads bash_join(tokens) back as tokens", "oracle": "bash-roundtrip"})
    # first word: NAME=value must stay a command word
    for first in ["FOO=1", "a=b", "_x+=1", "PATH=/x", "x[1]=2"]:
        joined = bash_join([first, "true"])
        p = subprocess.run(["/usr/bin/bash", "--norc", "--noprofile", "-c", joined], capture_output=True, timeout=20, env={"PATH": "/usr/bin:/bin"})
        stats["evaluations"] += 1
        stats["first_word_probes"] += 1
        if p.returncode != 127:
            vios.append({"input": {"tokens": [first, "true"], "joined": joined}, "observed": {"exit": p.returncode, "stderr": p.stderr[-200:].decode("utf-8", "replace")}, "required": "bash takes the first word as the command name (exit 127: command not found), not as an assignment prefix", "oracle": "bash-first-word"})
    # (2) monotonicity and (3) the jail
    n = ctx.scale(120, 4000) * k
    allowed = []
    for _ in range(n):
        c = pick_inner(r)
        dc = analyze(bash_join(c), cfg, Path(CWD))
        for lab, t, pure, jail_ok, ftag in forms(r, c):
            if not r.chance(0.35):
                continue
            dw = analyze(t, cfg, Path(CWD))
            stats["evaluations"] += 1
            stats["form:" + lab.split(" ")[0]] += 1
            stats["verdict:" + dw.action] += 1
            bad = None
            dc_local = dc
            ref_argv = c
            decoy = False
            if ftag and ftag.startswith("inner+="):
                ref_argv = c + [ftag[len("inner+="):]]
                dc = analyze(bash_join(ref_argv), cfg, Path(CWD))
                ftag = None
            if ftag and ftag.startswith("ref="):
                ref_argv = json.loads(ftag[4:])
                dc = analyze(bash_join(ref_argv), cfg, Path(CWD))
                ftag = None
                stats["decoy_forms"] += 1
                decoy = True
            if lab.split(" ")[0] in ("docker", "podman", "kubectl"):
                # inside a container the inner command's *local-path* checks do not apply (property C13): the reference is
                # the inner command judged in remote mode
                dc = analyze(bash_join(ref_argv), cfg, Path(CWD), remote=True)
            if ftag == "nomono":
                pass
            elif decoy and dw.action != "allow":
                # an option spelling the handler declines to take apart: the user is asked, which is all that can be required
                pass
            elif RANK[dw.action] < RANK[dc.action]:
                bad = "wrapped command judged more leniently (%s) than the command itself (%s: %s)" % (dw.action, dc.action, dc.reason)
            elif pure and dw.action != dc.action:
                bad = "a pure wrapper changed the verdict: %s vs %s" % (dw.action, dc.action)
            if bad:
                vios.append({"input": {"command": t, "config": B.CONFIG_TEXT, "cwd": CWD, "inner": c}, "form": lab, "finding_tag": ftag, "observed": {"wrapped": [dw.action, dw.reason], "inner": [dc.action, dc.reason]}, "required": bad, "oracle": "monotone"})
            elif dw.action == "allow" and jail_ok:
                allowed.append((lab, t, c, ftag))
            if len(samples) < 3 and dw.action != "allow" and dc.action != "allow":
                samples.append({"form": lab, "command": t, "verdict": dw.action, "inner_verdict": dc.action})
            dc = dc_local
    # (2b) an inner command whose verdict depends on the directory it runs in: ./s.py is not inert, proj/s.py and sub/s.py are.
    # None of the launchers' options moves the command there (uv's --project only locates pyproject.toml; --directory and
    # env -C do change directory - then ./s.py is what Dippy reads, which errs on the asking side here: finding F17i is the
    # mirrored layout), so every form must be judged like `python3 s.py` in the cwd
    import shutil
    import tempfile

    import dippy.cli.uv as UV

    sd = tempfile.mkdtemp(prefix="dippy-verif-c04cwd-")
    try:
        for sub in ("proj", "sub", "3.12"):
            os.makedirs(os.path.join(sd, sub))
            open(os.path.join(sd, sub, "s.py"), "w").write("import math\nprint(math.pi)\n")
        open(os.path.join(sd, "s.py"), "w").write("import os\nos.system('true')\n")
        inner = ["python3", "s.py"]
        dci = analyze("python3 s.py", cfg, Path(sd))
        cands = [(lab, t) for lab, t, _p, _j, ftag in forms(r, inner) if not (ftag or "").startswith(("ref=", "nomono", "F04"))]
        for flag in sorted(UV.RUN_FLAGS_WITH_ARG):
            if flag == "--directory":
                continue  # this one does change directory: the command then runs DIR/s.py
            for val in ("proj", "sub", "3.12"):
                cands.append(("uv run %s DIR" % flag, "uv run %s %s python3 s.py" % (flag, val)))
                if flag.startswith("--"):
                    cands.append(("uv run %s=DIR" % flag, "uv run %s=%s python3 s.py" % (flag, val)))
        for pre in ("env -u proj", "env --unset=proj", "env PROJ=proj", "nice -n 3", "timeout -k 3 5", "caffeinate -t 3", "arch -arm64", "xargs -n 1", "script -q proj", "command --"):
            cands.append((pre.split(" ")[0] + " … (cwd-sensitive inner)", ("echo a | " if pre.startswith("xargs") else "") + pre + " python3 s.py"))
        for lab, t in cands:
            dw = analyze(t, cfg, Path(sd))
            stats["evaluations"] += 1
            stats["cwd_sensitive_forms"] += 1
            if RANK[dw.action] < RANK[dci.action]:
                # in front: reports that match a known finding must not use up the budget
                vios.insert(0, {"input": {"command": t, "config": B.CONFIG_TEXT, "cwd": "<scratch: ./s.py imports os; proj/s.py, sub/s.py, 3.12/s.py are inert>", "inner": inner}, "form": lab, "finding_tag": None,
                             "observed": {"wrapped": [dw.action, dw.reason], "inner": [dci.action, dci.reason]}, "required": "the launcher runs `python3 s.py` in the cwd: judged more leniently (%s) than that command (%s)" % (dw.action, dci.action), "oracle": "monotone(cwd-sensitive inner)"})
    finally:
        shutil.rmtree(sd, ignore_errors=True)
    workers = 12
    jails = [Jail(STUBS, real=REAL) for _ in range(workers)]
    try:
        chunks = [allowed[i::workers] for i in range(workers)]

        def run_chunk(args):
            jail, chunk = args
            out = []
            for lab, t, c, ftag in chunk:
                rc, executed, err = jail.run(t, timeout=8)
                out.append((lab, t, c, ftag, rc, executed, err))
            return out

        with ThreadPoolExecutor(workers) as ex:
            results = [x for part in ex.map(run_chunk, zip(jails, chunks)) for x in part]
    finally:
        for j in jails:
            j.cleanup()
    for lab, t, c, ftag, rc, executed, err in results:
        stats["jail_runs"] += 1
        stats["stub_execs"] += len(executed)
        if rc is None:
            stats["jail_timeouts"] += 1
        # a program the real tools ran must be one Dippy approves when it is given on its own
        ran_bad = []
        appended_only = False
        for argv in executed:
            if not argv:
                continue
            if analyze(bash_join(argv), cfg, Path(CWD)).action == "allow":
                continue
            if lab.startswith("xargs") and len(argv) > len(c) and argv[: len(c)] == c and analyze(bash_join(argv[: len(c)]), cfg, Path(CWD)).action == "allow":
                # only the items xargs appended from stdin make the difference: finding F04i
                appended_only = True
            ran_bad.append(argv)
        if ran_bad:
            vios.append({"input": {"command": t, "config": B.CONFIG_TEXT, "cwd": CWD, "inner": c}, "form": lab, "finding_tag": "F04i" if appended_only and len(ran_bad) == 1 else ftag, "observed": {"verdict": "allow", "executed": executed[:8]}, "required": "auto-approved, but the real tools executed a command Dippy does not approve on its own: " + " ".join(ran_bad[0]), "oracle": "real-tools-jail"})
        elif executed and len(samples) < 6:
            samples.append({"form": lab, "command": t, "verdict": "allow", "executed": executed[:4]})
    return {"violations": vios[:8], "evaluations": stats["evaluations"], "distinct_nontrivial": stats["evaluations"] - stats.get("quote_roundtrips", 0), "stats": dict(stats), "samples": samples[:6], "oracle": "real bash re-reading; monotone verdicts; real env/xargs/find/timeout/nice/nohup/sh in a jail of stubs"}


def matches_finding(entry, v) -> bool:
    m = entry.get("match") or {}
    if m.get("finding_tag"):
        return v.get("finding_tag") == m["finding_tag"]
    if m.get("wrapper") == "xargs":
        cmd = (v.get("input") or {}).get("command", "")
        return "xargs" in cmd and any((" " + o + " ") in cmd for o in m.get("option", []))
    return False


def finding_still_fails(ctx, entry) -> bool:
    from dippy.core.analyzer import analyze

    w = entry["witness"]
    return analyze(w["command"], _cfg(), Path(w["cwd"])).action == "allow"


def replay(payload) -> int:
    from dippy.core.analyzer import analyze
    from dippy.core.bash import bash_join

    inp = payload["input"]
    if "command" in inp and str(inp.get("cwd", "")).startswith("<scratch"):
        import shutil
        import tempfile

        sd = tempfile.mkdtemp(prefix="dippy-verif-c04cwd-")
        try:
            for sub in ("proj", "sub", "3.12"):
                os.makedirs(os.path.join(sd, sub))
                open(os.path.join(sd, sub, "s.py"), "w").write("import math\nprint(math.pi)\n")
            open(os.path.join(sd, "s.py"), "w").write("import os\nos.system('true')\n")
            d = analyze(inp["command"], _cfg(), Path(sd))
            di = analyze(bash_join(inp["inner"]), _cfg(), Path(sd))
            print("in %s (./s.py imports os; proj/s.py, sub/s.py, 3.12/s.py are inert)" % sd)
            print("analyze(%r) ->" % inp["command"], d.action, "|", d.reason)
            print("inner   (%r) ->" % bash_join(inp["inner"]), di.action, "|", di.reason)
        finally:
            shutil.rmtree(sd, ignore_errors=True)
        print("required:", payload.get("required"))
        return 1
    if "command" in inp:
        d = analyze(inp["command"], _cfg(), Path(inp.get("cwd", CWD)))
        print("analyze(%r) ->" % inp["command"], d.action, "|", d.reason)
        if "inner" in inp:
            di = analyze(bash_join(inp["inner"]), _cfg(), Path(inp.get("cwd", CWD)))
            print("inner   (%r) ->" % bash_join(inp["inner"]), di.action, "|", di.reason)
    else:
        print("bash_join(%r) = %r ; bash reads: %r" % (inp["tokens"], bash_join(inp["tokens"]), bash_words(bash_join(inp["tokens"]))))
    print("required:", payload.get("required"))
    return 1
