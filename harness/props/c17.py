"""C17 — auto-approved python scripts are inert; the analysed file is the one executed."""
from __future__ import annotations

import collections
import json
import os
import shlex
import shutil
import subprocess
import tempfile
from concurrent.futures import ThreadPoolExecutor
from pathlib import Path

import corr_config as CC
import corr_pyast as CP
from common import rng

ID = "C17"
PROP_FILES = ["C17"]
RULE = (
    "correspondence: SafetyAnalyzer.visit (violations in order: line, kind, detail; the import roots of the shadowing check) vs the Lean visitor on generated modules, hand-written snippets over every node class the visitor "
    "has a method for, and a per-seed sample of the repository's and the standard library's own sources as a corpus of real syntax; analyze_python_file vs PyFile.analyzeFile over recorded file facts (missing / directory / suffixes / sizes around the limit / undecodable bytes / coding cookies / syntax errors / violations / shadowing siblings / symlinks); python classify() (with the command's cwd in HandlerContext) vs the model on option/script/argument lists over scratch files, from a hook cwd different from the command cwd "
    "(the file analysed is recorded by wrapping analyze_python_file); the model's CPython argv grammar (pythonRuns) vs the real interpreter on marker scripts. "
    "search (T2): scripts generated from the safe-module set x access paths to dangerous functionality (aliasing, attribute chains through safe modules, string-based attribute lookup, operator/functools indirection, "
    "decorators, comprehensions, class bodies, format strings, subscripts of module dictionaries) x option placements; every approved command is executed in a child interpreter whose audit hook records and vetoes file, process, "
    "network, ctypes, exec/compile and unlisted-import events; an event from an approved script is a violation. Also: an approved `python ARGS` must run the analysed file (marker scripts)."
)
TRUSTED = ["T0 translator (flag tables, gates)", "T1 correspondence harness", "CPython 3.12 audit events stand for 'performs a file/process/network/dynamic-code operation' (PEP 578 coverage)"]
ASSUMES = [
    "CPython's run-time behaviour is not modelled in Lean: 'passes the checker => raises no dangerous audit event' is exercised on generated scripts, not proved; what is proved about the checker is syntactic (Props/C17: approved_covers and its corollaries)",
    "ast.parse is an oracle: the tree the visitor sees is the tree the harness serialises (class name, lineno, _fields in order)",
    "all safe-listed modules are imported before the hook is armed: their own import-time file reads are not attributed to the script",
]
PY = "/venv/bin/python"
RUNNER = os.path.join(os.path.dirname(os.path.dirname(os.path.abspath(__file__))), "audit_runner.py")

SAFE_SRC = "import math\nprint(math.sqrt(2))\n"
BAD_SRC = "import os\nos.system('true')\n"
OPTS = ["-B", "-u", "-O", "-W", "ignore", "-X", "dev", "-E", "-s", "-q", "-I", "-i", "-c", "-m", "calendar", "-", "-h", "--version", "-V", "-x", "-Bx", "--help", "-VV", "-Wd", "--check-hash-based-pycs", "never", "timeit", "json.tool", "-BW", "-Bc", "-cimport os", "-mcalendar", "-Bm", "-BX", "-Bh", "-BV", "-hB", "-IW", "-Bmcalendar", "-uXdev", "-W"]
FILES = ["safe.py", "bad.py", "sub/safe.py", "sub/bad.py", "noext", "big.py", "missing.py", "dir.py", "./safe.py", "../probe/safe.py"]


def make_tree(root):
    cmd_cwd = os.path.join(root, "cmd")
    hook_cwd = os.path.join(root, "hook")
    for d in (cmd_cwd, hook_cwd, os.path.join(cmd_cwd, "sub"), os.path.join(cmd_cwd, "dir.py"), os.path.join(hook_cwd, "sub")):
        os.makedirs(d, exist_ok=True)
    w = lambda p, s: open(p, "w").write(s)  # noqa: E731
    # in the command's cwd safe.py is safe and bad.py is bad; in the hook's cwd it is the other way round
    w(os.path.join(cmd_cwd, "safe.py"), SAFE_SRC)
    w(os.path.join(cmd_cwd, "bad.py"), BAD_SRC)
    w(os.path.join(cmd_cwd, "sub", "safe.py"), SAFE_SRC)
    w(os.path.join(cmd_cwd, "sub", "bad.py"), BAD_SRC)
    w(os.path.join(cmd_cwd, "noext"), SAFE_SRC)
    w(os.path.join(cmd_cwd, "big.py"), SAFE_SRC + "#" * 100500 + "\n")
    w(os.path.join(hook_cwd, "safe.py"), BAD_SRC)
    w(os.path.join(hook_cwd, "bad.py"), SAFE_SRC)
    w(os.path.join(hook_cwd, "sub", "safe.py"), BAD_SRC)
    w(os.path.join(hook_cwd, "sub", "bad.py"), SAFE_SRC)
    return cmd_cwd, hook_cwd


def rand_cluster(r, mod="calendar"):
    """a cluster of short options as CPython's getopt reads it: flag letters, then possibly an option that takes the rest
    of the word (or the next word) as its value"""
    letters = "".join(r.pick("BuOEsqIixdvbSRP") for _ in range(r.randint(0, 3)))
    tail = r.pick(["", "", "W", "Wd", "Werror::SyntaxWarning", "X", "Xdev", "Xpycache_prefix=x", "c", "cprint('CODE')", "m", "m" + mod, "h", "V", "x", "xW", "xWd", "xX", "xXdev"])
    return "-" + letters + tail if (letters or tail) else "-B"


def gen_tokens(r):
    toks = [r.pick(["python3", "python", "python3.12"])]
    for _ in range(r.randint(0, 3)):
        toks.append(r.pick(OPTS) if r.chance(0.6) else rand_cluster(r))
    if r.chance(0.85):
        toks.append(r.pick(FILES))
        for _ in range(r.randint(0, 3)):
            toks.append(r.pick(OPTS + ["arg", "x.py", "bad.py"]))
    return toks


def corr_classify(model, r, n):
    import dippy.cli.python as P
    from dippy.cli import HandlerContext

    acc = CC.Acc("python classify() vs the model (hook cwd != command cwd)")
    root = os.path.realpath(tempfile.mkdtemp(prefix="dippy-verif-py-"))
    saved = os.getcwd()
    try:
        cmd_cwd, hook_cwd = make_tree(root)
        os.chdir(hook_cwd)
        real = P.analyze_python_file
        for _ in range(n):
            toks = gen_tokens(r)
            analysed = []

            def wrapped(path, _analysed=analysed):
                res = real(path)
                _analysed.append([str(path), bool(res[0])])
                return res

            P.analyze_python_file = wrapped
            try:
                c = P.classify(HandlerContext(toks, Path(cmd_cwd)))
            finally:
                P.analyze_python_file = real
            resolve = [[t, str((Path(cmd_cwd) / t).resolve())] for t in set(toks)]
            # the model is given the verdict of the file analysis for every path it may ask about
            safe = [[p, real(Path(p))[0]] for _, p in resolve]
            rep = model.ask({"op": "py_classify", "tokens": toks, "cwd": cmd_cwd, "resolve": resolve, "safe": safe})
            impl = {"allow": c.action == "allow", "analysed": analysed[0][0] if analysed else None}
            got = {"allow": rep.get("allow"), "analysed": rep.get("path")} if isinstance(rep, dict) else rep
            acc.case(toks, impl, got, nontrivial=bool(analysed), tag=("allow" if impl["allow"] else "ask") + (":file" if analysed else ""), sample={"tokens": toks, "action": c.action, "description": c.description})
    finally:
        os.chdir(saved)
        shutil.rmtree(root, ignore_errors=True)
    return acc.result()


# the first line is a comment: -x (skip the first source line) leaves the marker intact
MARK = "#!marker\nimport sys\nprint('RAN', __file__.split('/')[-1], sys.argv[1:])\n"


def corr_runs(model, r, n):
    """the model's argv grammar vs the real interpreter on marker scripts"""
    acc = CC.Acc("pythonRuns (CPython argv grammar) vs the real interpreter")
    root = os.path.realpath(tempfile.mkdtemp(prefix="dippy-verif-pyr-"))
    try:
        for name in ("a.py", "b.py", "calendar.py"):
            open(os.path.join(root, name), "w").write(MARK)
        opts = ["-B", "-u", "-O", "-W", "ignore", "-X", "dev", "-E", "-s", "-q", "-c", "print('CODE')", "-m", "a", "-", "-h", "--version", "-V", "-x", "--help", "-VV", "-Wd", "-I", "-BW", "-Bc", "-cprint('CODE')", "-ma", "-Bm", "-BX", "-Bh", "-BV", "-hB", "-IW", "-Bmb", "-uXdev", "-Bcprint('CODE')"]
        jobs = []
        for _ in range(n):
            args = [(r.pick(opts) if r.chance(0.7) else rand_cluster(r, mod="a")) for _ in range(r.randint(0, 3))]
            if r.chance(0.85):
                args.append(r.pick(["a.py", "b.py"]))
                args += [r.pick(opts + ["arg"]) for _ in range(r.randint(0, 2))]
            jobs.append(args)

        def run(args):
            try:
                p = subprocess.run([PY] + args, cwd=root, input=b"print('STDIN')\n", capture_output=True, timeout=20, env={"PATH": "/usr/bin:/bin", "HOME": root})
            except subprocess.TimeoutExpired:
                return args, "timeout", b""
            return args, p.returncode, p.stdout + p.stderr

        with ThreadPoolExecutor(12) as ex:
            results = list(ex.map(run, jobs))
        reps = model.batch([{"op": "py_runs", "args": a} for a in jobs])
        for (args, rc, out), rep in zip(results, reps):
            text = out.decode("utf-8", "replace")
            lines = text.splitlines()
            if "Argument expected for the" in text:
                impl = {"runs": "other"}  # a missing option value: usage error, nothing runs
            elif any(l.startswith("RAN ") for l in lines):
                line = [l for l in lines if l.startswith("RAN ")][0]
                impl = {"runs": "script", "word": line.split(" ")[1]}
            elif "CODE" in lines:
                impl = {"runs": "code"}
            elif "STDIN" in lines:
                impl = {"runs": "stdin"}
            elif any(l.startswith("usage:") for l in lines) or (lines and lines[0].startswith("Python 3")):
                impl = {"runs": "info"}
            else:
                impl = {"runs": "other"}  # errors (bad option values, missing module …): nothing of ours ran
            got = {"runs": rep.get("runs")}
            if rep.get("runs") == "script":
                got["word"] = rep.get("word").split("/")[-1]
            if rep.get("runs") == "module":
                # -m a / -m a.py / -m b.x import (execute) a.py resp. b.py before anything else
                root_mod = (rep.get("name") or "").split(".")[0]
                got = {"runs": "script", "word": root_mod + ".py"} if root_mod in ("a", "b") else {"runs": "other"}
            if impl["runs"] == "stdin" and rep.get("runs") != "stdin" and any(a.startswith("-") and not a.startswith("--") and "i" in a[1:] for a in args):
                # -i: after the program (or its failure: a missing file, a NameError) the interpreter reads our stdin
                acc.stats["inspect_after_failure"] += 1
                continue
            if impl["runs"] == "other" or (rep.get("runs") == "interactive"):
                # an interpreter error or the interactive prompt on our closed stdin: not a disagreement about which program runs
                acc.stats["interpreter_error_or_interactive"] += 1
                if rep.get("runs") == "interactive" and impl["runs"] in ("script", "code"):
                    acc.case(args, impl, got)
                continue
            acc.case(args, impl, got, nontrivial=impl["runs"] == "script", tag=impl["runs"], sample={"args": args, "ran": impl})
    finally:
        shutil.rmtree(root, ignore_errors=True)
    return acc.result()


def correspondence(ctx):
    k = 2 if ctx.broken else 1
    return [corr_classify(ctx.model, rng("c17-cls"), ctx.scale(1500, 40000) * k), corr_runs(ctx.model, rng("c17-runs"), ctx.scale(200, 5000) * k),
            CP.corr_visit(ctx.model, rng("c17-visit"), ctx.scale(600, 20000) * k, ctx.scale(120, 1500) * k),
            CP.corr_pyfile(ctx.model, rng("c17-file"), ctx.scale(400, 10000) * k)]


# ------------------------------------------------------------------ script generator

SAFE_MODS = ["json", "random", "collections", "string", "functools", "operator", "itertools", "math", "re", "textwrap", "dataclasses", "enum", "typing", "datetime", "decimal", "fractions", "statistics", "copy", "heapq", "bisect", "base64", "hashlib", "struct", "abc", "types", "pprint", "unicodedata", "calendar", "time", "uuid"]
TARGET = "OUT"  # replaced by a path in the scratch dir


def payloads():
    """(label, source) – each tries to reach a dangerous operation through some access path"""
    P = []
    add = lambda label, src: P.append((label, src))  # noqa: E731
    add("direct-open", "open('OUT', 'w').write('x')\n")
    add("alias-builtin", "f = open\nf('OUT', 'w')\n")
    add("alias-in-list", "fs = [open]\nfs[0]('OUT', 'w')\n")
    add("alias-in-class", "class A:\n    o = open\nA.o('OUT', 'w')\n")
    add("alias-default-arg", "def g(o=open):\n    return o('OUT', 'w')\ng()\n")
    add("alias-comprehension", "[o('OUT', 'w') for o in (open,)]\n")
    add("alias-lambda", "(lambda o: o('OUT', 'w'))(open)\n")
    add("alias-decorator", "def deco(fn):\n    return open\n@deco\ndef h():\n    pass\nh('OUT', 'w')\n")
    add("alias-walrus", "(o := open)('OUT', 'w')\n")
    add("alias-global-dict", "globals()['o'] = 1\n")
    add("builtins-subscript", "__builtins__['open']('OUT', 'w')\n")
    add("import-os", "import os\nos.system('true')\n")
    add("from-import", "from os import system\nsystem('true')\n")
    add("dunder-import", "__import__('os').system('true')\n")
    add("importlib", "import importlib\nimportlib.import_module('os').system('true')\n")
    add("chain-json-codecs-open", "import json\njson.codecs.open('OUT', 'w')\n")
    add("chain-json-codecs-open-alias", "import json\nw = json.codecs.open\nw('OUT', 'w')\n")
    add("chain-random-os", "import random\nrandom._os.system('true')\n")
    add("chain-random-os-alias", "import random\no = random._os\ns = o.system\ns('true')\n")
    add("chain-sys-modules", "import json\njson.codecs.sys.modules['os'].system('true')\n")
    add("chain-sys-modules-get", "import json\nm = json.codecs.sys.modules.get('os')\ngetattr(m, 'sys' + 'tem')('true')\n")
    add("getattr-string", "import random\ngetattr(getattr(random, '_os'), 'system')('true')\n")
    add("attrgetter", "import operator, random\noperator.attrgetter('_os.system')(random)('true')\n")
    add("attrgetter-globals", "import operator\ndef f():\n    pass\ng = operator.attrgetter('__globals__')(f)\ng['__builtins__']['open']('OUT', 'w')\n")
    add("methodcaller", "import operator, random\noperator.methodcaller('system', 'true')(operator.attrgetter('_os')(random))\n")
    add("functools-reduce-getattr", "import functools, random\nfunctools.reduce(getattr, ['_os', 'system'], random)('true')\n")
    add("functools-partial", "import functools\nfunctools.partial(open, 'OUT')('w')\n")
    add("format-attr", "import random\nprint('{0._os.name}'.format(random))\n")
    add("formatter-get-field", "import string, random\nstring.Formatter().get_field('0._os', (random,), {})[0].system('true')\n")
    add("vars-module", "import random\nvars(random)['_os'].system('true')\n")
    add("module-dict-string", "import random\nrandom.__dict__['_os'].system('true')\n")
    add("subclasses", "print(().__class__.__base__.__subclasses__())\n")
    add("type-mro", "print(type(1).__mro__)\n")
    add("eval", "eval(\"__import__('os').system('true')\")\n")
    add("exec", "exec(\"import os\")\n")
    add("compile", "compile('1', 'x', 'eval')\n")
    add("input", "input()\n")
    add("breakpoint", "breakpoint()\n")
    add("with-open", "with open('OUT', 'w') as f:\n    pass\n")
    add("pathlib", "import pathlib\npathlib.Path('OUT').write_text('x')\n")
    add("socket", "import socket\nsocket.socket()\n")
    add("subprocess", "import subprocess\nsubprocess.run(['true'])\n")
    add("ctypes", "import ctypes\nctypes.CDLL(None)\n")
    add("tempfile", "import tempfile\ntempfile.mkstemp()\n")
    add("logging-filehandler", "import logging\nlogging.FileHandler('OUT')\n")
    add("uuid-getnode", "import uuid\nuuid.getnode()\n")
    add("time-sleep", "import time\ntime.sleep(0)\n")
    add("print-file", "import json\nprint('x', file=json.codecs.sys.stderr)\n")
    add("codecs-via-json-lookup", "import json\njson.codecs.lookup('utf-8')\n")
    add("calendar-main", "import calendar\ncalendar.main(['cal'])\n")
    add("pprint-pformat", "import pprint\npprint.pformat({})\n")
    add("hashlib-file-digest-str", "import hashlib\nhashlib.sha256(b'x').hexdigest()\n")
    add("typing-get-type-hints", "import typing\nclass A:\n    x: 'open(\"OUT\", \"w\")'\ntyping.get_type_hints(A)\n")
    add("dataclass-exec", "import dataclasses\n@dataclasses.dataclass\nclass A:\n    x: int = 1\nA()\n")
    add("enum-functional", "import enum\nenum.Enum('E', 'a b')\n")
    add("collections-namedtuple", "import collections\ncollections.namedtuple('P', 'x y')\n")
    add("re-compile", "import re\nre.compile('a').match('a')\n")
    add("textwrap", "import textwrap\ntextwrap.fill('a b c', 3)\n")
    add("inert-math", "import math\nprint(math.pi)\n")
    add("inert-class", "class A:\n    def run(self):\n        return 1\nprint(A().run())\n")
    add("user-method-open", "class A:\n    def open(self, k):\n        return k\nprint(A().open(1))\n")
    return P


# ------------------------------------------------------------------ systematic access paths

OS_METHODS = [("remove", "(P)"), ("replace", "(P, P + '2')"), ("rename", "(P, P + '2')"), ("unlink", "(P)"), ("system", "('true')"), ("mkdir", "(P + 'd')"), ("rmdir", "(P + 'd')"), ("open", "(P, 0)"),
              ("popen", "('true')"), ("chmod", "(P, 0o600)"), ("listdir", "('.')"), ("putenv", "('A', '1')"), ("makedirs", "(P + 'e/f')"), ("truncate", "(P, 0)"), ("symlink", "(P, P + 'l')"), ("link", "(P, P + 'h')"),
              ("startfile", "(P)"), ("execv", "('/bin/true', ['true'])"), ("spawnl", "(0, '/bin/true', 'true')"), ("kill", "(0, 0)"), ("scandir", "('.')"), ("walk", "('.')"), ("stat", "(P)"), ("access", "(P, 0)")]
IO_METHODS = [("open", "(P, 'w')"), ("FileIO", "(P, 'w')"), ("open_code", "(P)")]
SYS_METHODS = [("exit", "()"), ("setrecursionlimit", "(50)"), ("_getframe", "()"), ("settrace", "(None)"), ("addaudithook", "(print)")]
HOLDERS = {
    "direct": "{src}.{m}{a}\n",
    "alias-var": "v = {src}\nv.{m}{a}\n",
    "param": "def f(x):\n    return x.{m}{a}\nf({src})\n",
    "default-arg": "def f(x={src}):\n    return x.{m}{a}\nf()\n",
    "list-subscript": "ms = [{src}]\nms[0].{m}{a}\n",
    "dict-subscript": "d = {{'k': {src}}}\nd['k'].{m}{a}\n",
    "instance-attr": "class H:\n    pass\nh = H()\nh.mod = {src}\nh.mod.{m}{a}\n",
    "tuple-unpack": "a, b = {src}, 1\na.{m}{a}\n",
    "walrus": "(v := {src}).{m}{a}\n",
    "lambda": "(lambda x: x.{m}{a})({src})\n",
    "comprehension": "[x.{m}{a} for x in [{src}]]\n",
    "bound-alias": "g = {src}.{m}\ng{a}\n",
    "closure": "def outer():\n    x = {src}\n    def inner():\n        return x.{m}{a}\n    return inner\nouter()()\n",
    "for-loop": "for x in ({src},):\n    x.{m}{a}\n",
    "with-as": "import contextlib\nwith contextlib.nullcontext({src}) as x:\n    x.{m}{a}\n",
    "ternary": "x = {src} if True else None\nx.{m}{a}\n",
    "return-value": "def get():\n    return {src}\nget().{m}{a}\n",
}


def module_sources():
    """dotted paths through safe-listed modules that evaluate to os / io / sys / builtins-like modules (found by introspection)"""
    import importlib
    import types

    import dippy.cli.python as P

    targets = {"os": OS_METHODS, "posix": OS_METHODS, "io": IO_METHODS, "_io": IO_METHODS, "sys": SYS_METHODS, "codecs": [("open", "(P, 'w')")], "builtins": [("open", "(P, 'w')"), ("eval", "('1')"), ("exec", "('1')")],
               "subprocess": [("run", "(['true'])"), ("Popen", "(['true'])")], "shutil": [("rmtree", "(P + 'd')"), ("copy", "(P, P + '2')")], "pathlib": [("Path", "(P).write_text('x')")]}
    out = []
    for name in sorted(P.SAFE_MODULES):
        try:
            mod = importlib.import_module(name)
        except Exception:  # noqa: BLE001
            continue
        for attr, val in sorted(vars(mod).items()):
            if isinstance(val, types.ModuleType) and val.__name__ in targets and not (attr.startswith("__") and attr.endswith("__")):
                out.append(("import %s\n" % name, "%s.%s" % (name, attr), targets[val.__name__], val.__name__))
                # one level deeper (json.codecs.sys)
                for a2, v2 in sorted(vars(val).items()):
                    if isinstance(v2, types.ModuleType) and v2.__name__ in targets and not a2.startswith("__") and len(out) < 400:
                        out.append(("import %s\n" % name, "%s.%s.%s" % (name, attr, a2), targets[v2.__name__], v2.__name__))
    return out


def systematic(r, k, outpath_token="OUT"):
    srcs = module_sources()
    res = []
    for _ in range(k):
        imp, src, methods, tname = r.pick(srcs)
        m, a = r.pick(methods)
        hname = r.pick(sorted(HOLDERS))
        # what is held: the dangerous module itself (random._os), or something earlier on the chain (random), the
        # rest of the chain then being walked on the held value
        chain = src.split(".")
        k = r.randint(1, len(chain))
        src, m = ".".join(chain[:k]), ".".join(chain[k:] + [m])
        body = HOLDERS[hname].format(src=src, m=m, a=a)
        res.append(("sys:%s:%s.%s" % (hname, tname, m), imp + "P = '" + outpath_token + "'\n" + body))
    return res


def gen_script(r, payload_src):
    pre = ""
    if r.chance(0.5):
        pre = "import " + r.pick(SAFE_MODS) + "\n"
    wrap = r.pick(["plain", "plain", "func", "class", "try", "if"])
    body = payload_src
    ind = lambda s: "".join("    " + l + "\n" for l in s.splitlines())  # noqa: E731
    if wrap == "func":
        body = "def main():\n" + ind(body) + "main()\n"
    elif wrap == "class":
        body = "class K:\n    def m(self):\n" + "".join("        " + l + "\n" for l in payload_src.splitlines()) + "K().m()\n"
    elif wrap == "try":
        body = "try:\n" + ind(body) + "except Exception as e:\n    print('err', e)\n"
    elif wrap == "if":
        body = "if True:\n" + ind(body)
    return pre + body


def search(ctx):
    from dippy.core.analyzer import analyze
    from dippy.core.config import Config
    import dippy.cli.python as P

    r = rng("c17-search")
    stats = collections.Counter()
    vios = []
    samples = []
    root = os.path.realpath(tempfile.mkdtemp(prefix="dippy-verif-pys-"))
    try:
        safe_list = os.path.join(root, "safe.json")
        json.dump(sorted(P.SAFE_MODULES), open(safe_list, "w"))
        pls = payloads()
        n = ctx.scale(1, 12) * (2 if ctx.broken else 1)
        jobs = []
        idx = 0
        stats["module_sources"] = len(module_sources())
        for rep in range(n):
            for label, src in pls + systematic(r, ctx.scale(700, 3000)):
                idx += 1
                d = os.path.join(root, "s%d" % idx)
                os.makedirs(d)
                script = os.path.join(d, "script.py")
                source = gen_script(r, src.replace("OUT", os.path.join(d, "out.txt")))
                open(script, "w").write(source)
                # option placements: interpreter options before, script options after
                pre = r.pick([[], [], ["-B"], ["-u", "-B"], ["-W", "ignore"], ["-X", "dev"], ["-W", "-h"], ["-q"]])
                post = r.pick([[], [], ["--version"], ["-h"], ["-c", "x"], ["-m", "calendar"], ["-i"], ["arg"]])
                cmd = " ".join(["python3"] + pre + ["script.py"] + post)
                dec = analyze(cmd, Config(), Path(d))
                stats["evaluations"] += 1
                stats["verdict:" + dec.action] += 1
                stats["label:" + (label if not label.startswith("sys:") else "sys:" + label.split(":")[1]) + ":" + dec.action] += 1
                if dec.action == "allow":
                    jobs.append((label, cmd, d, script, source, pre, post))

        def run(job):
            label, cmd, d, script, source, pre, post = job
            try:
                p = subprocess.run([PY, RUNNER, safe_list, script], cwd=d, capture_output=True, timeout=30, stdin=subprocess.DEVNULL, env={"PATH": "/usr/bin:/bin", "HOME": d})
                text = p.stdout.decode("utf-8", "replace")
                if "@@AUDIT@@" in text:
                    return job, json.loads(text.split("@@AUDIT@@")[-1])
                return job, {"events": [], "error": "no report: " + p.stderr.decode("utf-8", "replace")[-200:]}
            except subprocess.TimeoutExpired:
                return job, {"events": [], "error": "timeout"}

        with ThreadPoolExecutor(12) as ex:
            for (label, cmd, d, script, source, pre, post), rep in ex.map(run, jobs):
                stats["executed"] += 1
                if rep.get("events"):
                    stats["audit_events"] += 1
                    # at most two reports per access path (known findings must not crowd out new ones), 40 in all
                    stats["vio_path:" + label] += 1
                    if stats["vio_path:" + label] <= 2 and len(vios) < 40:
                        vios.append({"input": {"command": cmd, "script": source, "cwd": "<scratch>"}, "access_path": label, "observed": {"verdict": "allow", "audit_events": rep["events"][:4]}, "required": "an auto-approved script raises no file/process/network/dynamic-code audit event; raised: " + rep["events"][0], "oracle": "audit-hook"})
                elif len(samples) < 3:
                    samples.append({"command": cmd, "access_path": label, "verdict": "allow", "audit_events": 0})
        # which file runs: marker scripts with options placed after the script word
        d = os.path.join(root, "which")
        os.makedirs(d)
        open(os.path.join(d, "safe.py"), "w").write(SAFE_SRC)
        open(os.path.join(d, "bad.py"), "w").write(BAD_SRC)
        for cmd in ["python3 bad.py --version", "python3 bad.py -h", "python3 bad.py -m calendar", "python3 - safe.py", "python3 -W -h bad.py", "python3 -x safe.py", "python3 bad.py -V", "python3 -B bad.py --help", "python3 -c 'import os' safe.py", "python3 -i safe.py", "python3 -m timeit safe.py"]:
            dec = analyze(cmd, Config(), Path(d))
            stats["evaluations"] += 1
            if dec.action == "allow":
                vios.append({"input": {"command": cmd, "cwd": "<scratch with safe.py, bad.py>"}, "observed": {"verdict": "allow", "reason": dec.reason}, "required": "this command runs bad.py / code that was not analysed: never allow", "oracle": "analysed-file-is-run"})
        # which file runs when the shell expands the script word: <cwd>/~/tool.py and <cwd>/~+/tool.py are inert files at the
        # literal paths, $HOME/tool.py and <cwd>/tool.py are not inert; real bash + the real interpreter say which one runs
        tbad = "import os\nprint('@@TILDE-BAD' + '-RAN@@')\n"
        saved_home = os.environ.get("HOME")
        try:
            # layout A: the literal paths are inert, what the expansion names is not; layout B: the other way round (a quoted
            # '~/tool.py' runs the literal file)
            for lay, lit, exp in [("tildeA", SAFE_SRC, tbad), ("tildeB", tbad, SAFE_SRC)]:
                td = os.path.join(root, lay)
                home = os.path.join(td, "home")
                for sub in ("~", "~+", "home", "~/sub", "home/sub"):
                    os.makedirs(os.path.join(td, sub), exist_ok=True)
                for rel, src in [("~/tool.py", lit), ("~+/tool.py", lit), ("~/sub/tool.py", lit), ("home/tool.py", exp), ("tool.py", exp), ("home/sub/tool.py", exp)]:
                    open(os.path.join(td, rel), "w").write(src)
                os.environ["HOME"] = home
                for word in ["~/tool.py", "~+/tool.py", "~/sub/tool.py", "~/sub/../tool.py", "'~/tool.py'", "\"~\"/tool.py", "~/'tool.py'", "\\~/tool.py", "./~/tool.py", "'~+/tool.py'", "\"~/sub/tool.py\""]:
                    for pre, post in [("", ""), ("-B ", ""), ("", " --version"), ("-W ignore ", " -h"), ("-BE ", " x")]:
                        cmd = "python3 " + pre + word + post
                        dec = analyze(cmd, Config(), Path(td))
                        stats["evaluations"] += 1
                        stats["tilde_forms"] += 1
                        if dec.action != "allow":
                            continue
                        pr = subprocess.run(["/usr/bin/bash", "--norc", "--noprofile", "-c", PY + cmd[len("python3"):]], cwd=td, capture_output=True, timeout=20, stdin=subprocess.DEVNULL, env={"PATH": "/usr/bin:/bin", "HOME": home})
                        stats["tilde_runs"] += 1
                        if b"@@TILDE-BAD-RAN@@" in pr.stdout:
                            where = "~/tool.py and ~+/tool.py inert at the literal paths; $HOME/tool.py and ./tool.py import os" if lay == "tildeA" else "$HOME/tool.py and ./tool.py inert; the files at the literal paths ~/tool.py, ~+/tool.py import os"
                            vios.insert(0, {"input": {"command": cmd, "cwd": "<scratch: %s>" % where}, "observed": {"verdict": "allow", "reason": dec.reason, "stdout": pr.stdout.decode("utf-8", "replace")[:120]},
                                            "required": "the file that ran is not the file Dippy analysed (tilde expansion happens for an unquoted ~ only) - never allow", "oracle": "analysed-file-is-run(tilde)"})
        finally:
            if saved_home is None:
                os.environ.pop("HOME", None)
            else:
                os.environ["HOME"] = saved_home
        # the text that runs is the text that was analysed: guard.py is inert as a whole, but not when its first line is skipped
        gd = os.path.join(root, "guard")
        os.makedirs(gd)
        open(os.path.join(gd, "guard.py"), "w").write('x = """\nprint("@@SKIPPED-LINE" + "-RAN@@") #"""\n')
        gjobs = []
        for _ in range(ctx.scale(250, 6000) * (3 if ctx.broken else 1)):
            opts = [(rand_cluster(r) if r.chance(0.7) else r.pick(OPTS)) for _ in range(r.randint(1, 3))]
            if any(("c" in o[1:] or "m" in o[1:] or o in ("-", "-i")) and o.startswith("-") and not o.startswith("--") for o in opts):
                continue  # code / module / stdin / interactive forms are the grammar correspondence's business
            cmd = "python3 " + " ".join(shlex.quote(o) for o in opts) + " guard.py"
            dec = analyze(cmd, Config(), Path(gd))
            stats["evaluations"] += 1
            stats["guard:" + dec.action] += 1
            if dec.action == "allow":
                gjobs.append((cmd, opts))

        def grun(job):
            cmd, opts = job
            try:
                p = subprocess.run([PY] + opts + ["guard.py"], cwd=gd, capture_output=True, timeout=20, stdin=subprocess.DEVNULL, env={"PATH": "/usr/bin:/bin", "HOME": gd})
                return job, p.stdout.decode("utf-8", "replace")
            except subprocess.TimeoutExpired:
                return job, ""

        with ThreadPoolExecutor(12) as ex:
            for (cmd, opts), text in ex.map(grun, gjobs):
                stats["guard_executed"] += 1
                if "@@SKIPPED-LINE-RAN@@" in text and stats["guard_violations"] < 4:
                    stats["guard_violations"] += 1
                    vios.insert(0, {"input": {"command": cmd, "cwd": "<scratch with guard.py: a string literal as a whole, a print when line 1 is skipped>"}, "observed": {"verdict": "allow", "stdout": text[:200]}, "required": "the interpreter ran text that is not the text Dippy analysed (first line skipped): never allow", "oracle": "analysed-text-is-run-text"})
        # the encoding the interpreter reads the file in (PEP 263, asked of CPython's own tokenize.detect_encoding) must be one
        # under which the UTF-8 text Dippy analysed is the program: cookies on line 1/2, behind separators that str.splitlines
        # (but not the tokenizer) takes for line ends, with a payload only another codec reveals
        import tokenize

        ed = os.path.join(root, "enc")
        os.makedirs(ed)
        seps = ["", "", "\x0c", "\x0b", "\x1c", "\x1d", "\x1e", "\x85", "\u2028", "\u2029", "\r", "\x0c\x0c", " \t"]
        cookies = ["# -*- coding: utf-7 -*-", "# coding: unicode_escape", "# coding=latin-1", "# vim: set fileencoding=cp1252 :", "# coding: utf-8", "# coding:UTF_8", "#coding=utf-16", "# coding: rot13", "# -*- coding: iso-8859-15 -*-", "# no cookie here"]
        payload7 = "# " + "\nimport os\nos.system('true')\n".encode("utf-7").decode("ascii")
        for i in range(ctx.scale(400, 8000) * (3 if ctx.broken else 1)):
            ck = r.pick(cookies)
            shape = r.randrange(5)
            if shape == 0:
                head = ck + "\n"
            elif shape == 1:
                head = r.pick(["#!/usr/bin/env python3", "# notes", ""]) + "\n" + ck + "\n"
            elif shape == 2:
                head = "# build notes" + r.pick(seps) + "page two\n" + ck + "\n"
            elif shape == 3:
                head = "#" + r.pick(seps) + r.pick(seps) + " " + ck.lstrip("# ") + "\n"
            else:
                head = r.pick(seps) + ck + "\n"
            text = head + r.pick([payload7 + "\n", "# \\nimport os\\nos.system('true')\n", ""]) + "import math\nprint(math.pi)\n"
            fp = os.path.join(ed, "e%d.py" % i)
            with open(fp, "w", encoding="utf-8", newline="") as f:
                f.write(text)
            dec = analyze("python3 e%d.py" % i, Config(), Path(ed))
            stats["evaluations"] += 1
            stats["cookie_files:" + dec.action] += 1
            if dec.action != "allow":
                continue
            try:
                with open(fp, "rb") as f:
                    enc = tokenize.detect_encoding(f.readline)[0]
            except SyntaxError:
                stats["cookie_interpreter_rejects"] += 1
                continue
            if enc.lower().replace("_", "-") not in ("utf-8", "utf-8-sig", "ascii", "us-ascii"):
                stats["cookie_violations"] += 1
                if stats["cookie_violations"] <= 3:
                    vios.insert(0, {"input": {"command": "python3 e%d.py" % i, "script": text, "cwd": "<scratch>"}, "observed": {"verdict": "allow", "reason": dec.reason, "interpreter_encoding": enc}, "required": "the interpreter decodes this file as %s (tokenize.detect_encoding), Dippy analysed it as UTF-8: the analysed text is not the program - never allow" % enc, "oracle": "analysed-text-is-run-text(encoding)"})
        # the modules an approved script imports are the standard library's: with a sibling file named like one of them in
        # the script's directory (sys.path[0] unless -I / -P / -E-free isolation says otherwise) the sibling is what runs
        sd = os.path.join(root, "shadow")
        os.makedirs(sd)
        open(os.path.join(sd, "roll.py"), "w").write("import random\nprint(random.random() < 2)\n")
        open(os.path.join(sd, "random.py"), "w").write("print('@@SHADOW' + '-RAN@@')\ndef random():\n    return 0\n")
        wx = ["-Wignore::ImportWarning", "-Werror::PendingDeprecationWarning", "-BWdefault::ImportWarning", "-XImporttime", "-Ximporttime", "-W", "ignore::ImportWarning", "-X", "Importtime", "-I", "-P", "-BI", "-IP", "-s", "-E", "-B", "-u", "-q", "-O", "-OO", "-d", "-v", "-bb", "-R", "-S"]
        sjobs = []
        for _ in range(ctx.scale(250, 5000) * (3 if ctx.broken else 1)):
            opts = []
            for _k in range(r.randint(0, 3)):
                o = r.pick(wx)
                if o in ("-W", "-X"):
                    opts += [o, r.pick(["ignore::ImportWarning", "Importtime", "dev", "error::PendingDeprecationWarning"])]
                elif o in ("ignore::ImportWarning", "Importtime"):
                    continue
                else:
                    opts.append(o if r.chance(0.7) else rand_cluster(r))
            if any(("c" in o[1:] or "m" in o[1:] or o in ("-", "-i")) and o.startswith("-") and not o.startswith("--") for o in opts if not o.startswith(("-W", "-X"))):
                continue
            script = r.pick(["roll.py", os.path.join(sd, "roll.py"), "./roll.py"])
            cmd = "python3 " + " ".join(shlex.quote(o) for o in opts) + (" " if opts else "") + script
            dec = analyze(cmd, Config(), Path(sd))
            stats["evaluations"] += 1
            stats["shadow:" + dec.action] += 1
            if dec.action == "allow":
                sjobs.append((cmd, opts, script))

        def srun(job):
            cmd, opts, script = job
            try:
                p = subprocess.run([PY] + opts + [script], cwd=sd, capture_output=True, timeout=20, stdin=subprocess.DEVNULL, env={"PATH": "/usr/bin:/bin", "HOME": sd})
                return job, p.stdout.decode("utf-8", "replace")
            except subprocess.TimeoutExpired:
                return job, ""

        with ThreadPoolExecutor(12) as ex:
            for (cmd, opts, script), text in ex.map(srun, sjobs):
                stats["shadow_executed"] += 1
                if "@@SHADOW-RAN@@" in text:
                    stats["shadow_violations"] += 1
                    if stats["shadow_violations"] <= 3:
                        vios.insert(0, {"input": {"command": cmd, "cwd": "<scratch with roll.py (import random) and a sibling random.py>"}, "observed": {"verdict": "allow", "stdout": text[:200]}, "required": "the interpreter imported the sibling random.py, a file Dippy did not analyse: never allow", "oracle": "imports-are-the-analysed-ones(shadowing)"})
    finally:
        shutil.rmtree(root, ignore_errors=True)
    return {"violations": vios, "evaluations": stats["evaluations"], "distinct_nontrivial": stats["executed"], "stats": dict(stats), "samples": samples, "oracle": "audit hook (PEP 578) vetoing file/process/network/ctypes/exec/compile/unlisted-import events in a child interpreter; marker commands"}


def matches_finding(entry, v) -> bool:
    m = entry.get("match") or {}
    return bool(m.get("access_path")) and v.get("access_path") in m["access_path"]


def finding_still_fails(ctx, entry) -> bool:
    from dippy.core.analyzer import analyze
    from dippy.core.config import Config

    d = tempfile.mkdtemp(prefix="dippy-verif-pyf-")
    try:
        w = entry["witness"]
        if "script" in w:
            open(os.path.join(d, "script.py"), "w").write(w["script"])
            return analyze("python3 script.py", Config(), Path(d)).action == "allow"
        # a command witness: safe.py imports json, evil/json.py is what PYTHONPATH=evil makes it import
        open(os.path.join(d, "safe.py"), "w").write("import json\nprint(json.dumps(1))\n")
        os.makedirs(os.path.join(d, "evil"))
        open(os.path.join(d, "evil", "json.py"), "w").write("import os\nos.system('true')\n")
        open(os.path.join(d, "evil", "safe.py"), "w").write("import os\nos.system('true')\n")
        return analyze(w["command"], Config(), Path(d)).action == "allow"
    finally:
        shutil.rmtree(d, ignore_errors=True)


def replay(payload) -> int:
    from dippy.core.analyzer import analyze
    from dippy.core.config import Config
    import dippy.cli.python as P

    i = payload["input"]
    d = tempfile.mkdtemp(prefix="dippy-verif-pyr-")
    try:
        if "script" in i:
            open(os.path.join(d, "script.py"), "w").write(i["script"])
            print("analyze:", analyze(i["command"], Config(), Path(d)))
            sl = os.path.join(d, "safe.json")
            json.dump(sorted(P.SAFE_MODULES), open(sl, "w"))
            p = subprocess.run([PY, RUNNER, sl, os.path.join(d, "script.py")], cwd=d, capture_output=True, timeout=30, stdin=subprocess.DEVNULL)
            print("audit:", p.stdout.decode("utf-8", "replace").split("@@AUDIT@@")[-1])
        else:
            open(os.path.join(d, "safe.py"), "w").write(SAFE_SRC)
            open(os.path.join(d, "bad.py"), "w").write(BAD_SRC)
            print("analyze:", analyze(i["command"], Config(), Path(d)))
    finally:
        shutil.rmtree(d, ignore_errors=True)
    print("required:", payload.get("required"))
    return 1
