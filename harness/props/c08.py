"""C08 — allow rules are local to the command they match."""
from __future__ import annotations

import collections
from pathlib import Path

import bashgen as B
from common import rng
from corr_analyzer import correspondence_cfg
from props import c03

ID = "C08"
PROP_FILES = ["C08"]
RULE = (
    "correspondence: generated programs analysed end-to-end under rule sets extended by allow rules derived from commands inside the program "
    "(model computes rule lookups from the parsed configuration). search: on the implementation, under cfg+ = cfg with one more allow rule: "
    "(1) every redirect atom keeps its verdict, (2) every simple command the rule does not match keeps verdict and reason, "
    "(3) every node's verdict is the max of its parts under cfg+, so an ask/deny of a redirect, substitution or sibling survives."
)
TRUSTED = c03.TRUSTED
ASSUMES = c03.ASSUMES + ["adding a rule to a config text has the shape withAllow (Props/C07 later_overrides / inert)"]
CWD = "/tmp/probe"
RANK = c03.RANK


def extra_rule(r, p: B.P) -> str:
    """an allow rule derived from a simple command of the tree"""
    sims = p.reach()
    words = []
    if sims:
        s = r.pick(sims)
        for w in s.argv:
            if not w.is_plain():
                break
            words.append(w.render())
    if not words:
        words = ["foo"]
    k = r.randint(1, len(words))
    pat = " ".join(words[:k])
    x = r.random()
    if x < 0.2:
        pat += " *"
    elif x < 0.3:
        pat += "|"
    return "allow " + pat + "\n"


def correspondence(ctx):
    r = rng("c08-corr")
    g = B.Gen(r, exotic=True, p_ask=0.3, p_deny=0.1)
    n = ctx.scale(700, 20000) * (2 if ctx.broken else 1)

    def cases():
        for _ in range(n):
            p, t = g.program()
            rule = extra_rule(r, p)
            cfg = B.CONFIG_TEXT + rule if r.chance(0.7) else rule + B.CONFIG_TEXT
            yield t, cfg, CWD

    return [correspondence_cfg(ctx.model, cases(), area="analyze under cfg + allow rule (config mode)")]


def search(ctx):
    from dippy.core import config as C

    r = rng("c08-search")
    g = B.Gen(r, exotic=False, pipe_both=False, p_ask=0.3, p_deny=0.1)
    g.p_plain_list = 0.3
    n = ctx.scale(250, 8000) * (5 if ctx.broken else 1)
    stats = collections.Counter()
    vios = []
    samples = []
    base = c03.Oracle(B.CONFIG_TEXT)
    evals = 0
    distinct = 0
    for i in range(n):
        p, t = g.program()
        rule = extra_rule(r, p)
        cfg_text = B.CONFIG_TEXT + rule if r.chance(0.7) else rule + B.CONFIG_TEXT
        plus = c03.Oracle(cfg_text)
        rule_cfg = C.parse_config(rule)
        out = []
        # (3) max-of-parts under cfg+
        plus.walk(p, out, stats)
        # a deviation from max-of-parts that is there without the added rule as well is not an effect of the rule
        # (it is C03's business, e.g. finding F03d): C08 keeps only what the rule changes
        kept = []
        for v in out:
            cmd = v["input"]["command"]
            b_act = base.verdict(cmd)[0]
            b_worst = "allow"
            for label, t, _a in v["observed"].get("parts", []):
                a = "ask" if label == "inject" else base.verdict(t)[0]
                if RANK[a] > RANK[b_worst]:
                    b_worst = a
            if b_act != b_worst:
                stats["deviation_without_rule_too"] += 1
            else:
                kept.append(v)
        out[:] = kept
        # (1),(2) atoms the rule cannot touch
        def visit(q):
            for c in q.children():
                visit(c)
            for _, sp in q.subprograms():
                visit(sp)
            for rd, a in zip([x for x in getattr(q, "redirs", []) if x.heredoc is None], plus.redirect_atoms(q)):
                if rd.target.subprograms():
                    continue  # a substitution inside the target is a command of its own
                v0, v1 = base.verdict(a), plus.verdict(a)
                stats["redirect_atoms"] += 1
                if v0[0] != v1[0] and not v0[1].startswith("parse error"):
                    out.append({"input": {"command": a, "config": cfg_text, "cwd": CWD}, "observed": {"verdict": v1[0], "without_rule": v0[0]}, "required": f"a command rule never changes a redirection's verdict == {v0[0]}", "oracle": "redirect-atom-rule-free"})
            if isinstance(q, B.Simple):
                pt = plus.proper_text(q)
                ws = pt.split()
                # does the rule match this command, or an inner command behind wrappers/assignments?
                hit = any(C.match_command(C.SimpleCommand(words=ws[k:]), rule_cfg, Path(CWD)) is not None for k in range(len(ws)))
                v0, v1 = base.verdict(pt), plus.verdict(pt)
                stats["proper_atoms"] += 1
                if hit:
                    stats["matched"] += 1
                elif v0 != v1 and not v0[1].startswith("parse error"):
                    out.append({"input": {"command": pt, "config": cfg_text, "cwd": CWD}, "observed": {"verdict": v1[0], "reason": v1[1], "without_rule": list(v0)}, "required": f"the rule does not match this command: verdict unchanged == {v0[0]}", "oracle": "unmatched-unchanged"})
        visit(p)
        if i < 2:
            samples.append({"program": t[:200], "added_rule": rule.strip(), "verdict_before": base.verdict(plus.text(p))[0], "verdict_after": plus.verdict(plus.text(p))[0]})
        evals += plus.evals
        distinct += len(plus.cache)
        if out:
            out.sort(key=lambda v: len(v["input"]["command"]))
            vios.append(out[0])
            if len(vios) >= 5:
                break
    # directed: the rule matches a command whose *embedded* parts still need a prompt - a pure $(…) argument of a handler CLI
    # (the "cmdsub injection risk" prompt), a redirection, an unsafe substitution - alone and inside a pipeline / list / if
    focus_cmds = [["git", "push"], ["git", "push", "origin"], ["kubectl", "delete", "pod"], ["docker", "rm"], ["npm", "install"], ["curl", "-X", "POST"], ["git", "commit", "-m"], ["pip", "install"]]
    inner_ok = [["echo", "origin"], ["git", "branch", "--show-current"], ["ls"], ["docker", "ps", "-aq"]]
    inner_bad = [["rm", "x"], ["denied"], ["askme"]]
    for _ in range(ctx.scale(120, 3000) * (3 if ctx.broken else 1)):
        if len(vios) >= 5:
            break
        cmd = r.pick(focus_cmds)
        inner = r.pick(inner_ok if r.chance(0.7) else inner_bad)
        sub = B.W([B.Seg("cmdsub", prog=B.Simple([], [B.lit(x) for x in inner], []))])
        argv = [B.lit(x) for x in cmd] + ([sub] if r.chance(0.8) else [B.W([B.Seg("lit", "x-"), sub.segs[0]])])
        redirs = [B.Redir(">", B.lit(r.pick(B.TARGETS_ASK + B.TARGETS_DENY)))] if r.chance(0.25) else []
        sc = B.Simple([], argv, redirs)
        shape = r.randrange(4)
        prog = sc if shape == 0 else B.Pipe([sc, B.Simple([], [B.lit("cat")], [])], ["|"]) if shape == 1 else B.Seq([B.Simple([], [B.lit("ls")], []), sc], ["&&"]) if shape == 2 else B.If(B.Simple([], [B.lit("true")], []), sc)
        k = r.randint(1, len(cmd))
        rule = "allow " + " ".join(cmd[:k]) + r.pick(["", "", " *"]) + "\n"
        cfg_text = B.CONFIG_TEXT + rule
        plus = c03.Oracle(cfg_text)
        out = []
        try:
            plus.walk(prog, out, stats)
        except Exception:  # noqa: BLE001
            continue
        stats["directed_rule_cases"] += 1
        evals += plus.evals
        for v in out:
            cmdt = v["input"]["command"]
            b_act = base.verdict(cmdt)[0]
            b_worst = "allow"
            for label, t, _a in v["observed"].get("parts", []):
                a = "ask" if label == "inject" else base.verdict(t)[0]
                if RANK[a] > RANK[b_worst]:
                    b_worst = a
            if b_act == b_worst:
                v["added_rule"] = rule.strip()
                vios.append(v)
                break
    evals += base.evals
    # (4) one line, two effective directories: an allow rule with a cwd-relative pattern that matches a command inside a
    # `(cd DIR && …)` scope leaves a sibling outside that scope alone, wherever the two stand (deterministic; every analysis
    # gets a freshly parsed configuration)
    from dippy.core.analyzer import analyze as _analyze

    for cfg_text in ("allow ./tools/*\n", "allow tools/a.sh\n", "deny /tmp/other/**\nallow ./tools/*\n", "allow ../other/tools/a.sh\nallow ./tools/*\n", "allow-redirect ./out/*\nallow ./tools/*\n"):
        for S_, C_ in (("./tools/a.sh", "/tmp/other/tools/b.sh"), ("tools/a.sh x", "/tmp/other/tools/a.sh x"), ("./tools/a.sh", "../other/tools/b.sh"), ("./tools/a.sh", "cat f > /tmp/other/out/f")):
            for tmpl in ("(cd /tmp/other && {S}); {C}", "{C}; (cd /tmp/other && {S})", "(cd /tmp/other && {S}) && {C}", "(cd /tmp/other && {S}) | {C}", "if (cd /tmp/other && {S}); then {C}; fi", "{{ (cd /tmp/other && {S}); }}; {C}",
                         "echo $(cd /tmp/other && {S}); {C}", "for i in 1; do (cd /tmp/other && {S}); done; {C}", "(cd /tmp/other && {S}) &\n{C}", "{C} || (cd /tmp/other; {S})"):
                whole = tmpl.format(S=S_, C=C_)
                dc = _analyze(C_, C.parse_config(cfg_text), Path(CWD))
                dw = _analyze(whole, C.parse_config(cfg_text), Path(CWD))
                evals += 2
                stats["two_directory_lines"] += 1
                if RANK[dw.action] < RANK[dc.action] and stats["two_directory_violations"] < 4:
                    stats["two_directory_violations"] += 1
                    vios.insert(0, {"input": {"command": whole, "config": cfg_text, "cwd": CWD}, "observed": {"verdict": dw.action, "reason": dw.reason, "sibling_alone": [C_, dc.action, dc.reason]},
                                    "required": "the rule matches the command inside the (cd …) scope only; the sibling `%s` is judged %s on its own and nothing next to it may lower that" % (C_, dc.action), "oracle": "allow-rule-local(two directories)"})
    return {"violations": vios, "evaluations": evals, "distinct_nontrivial": distinct, "programs": n, "stats": dict(stats), "samples": samples, "oracle": "rule-locality on analyze(): redirect atoms rule-free, unmatched commands unchanged, max-of-parts under cfg+"}


def matches_finding(entry, v) -> bool:
    return False


def finding_still_fails(ctx, entry) -> bool:
    return False


replay = c03.replay
