"""C05 — unknown or unparseable input defaults to ask."""
from __future__ import annotations

import collections
import subprocess
from pathlib import Path

import bashgen as B
import corr_config as CC
from common import rng
from corr_analyzer import correspondence as corr_run

ID = "C05"
PROP_FILES = ["C05"]
RULE = (
    "correspondence: the real analyze() vs the model on (a) simple commands whose program name is drawn from outside the tables (random, near-misses of table names, "
    "path-qualified, quoted, escaped, =-containing, expansion-derived) with argument lists incl. help look-alikes, (b) a malformed-text stream (unbalanced quotes, stray operators, "
    "NUL, deep nesting), (c) generated programs. search: on the implementation, with the program name bash would really run computed by real bash (quote removal of the first word): "
    "name not on any table and no rule => verdict != allow unless the independent help/version shape holds; text Parable rejects / empty => ask."
)
TRUSTED = ["T0 translator (tables)", "T1 correspondence harness", "real /usr/bin/bash 5.2 for quote removal of the program word (search only)"]
ASSUMES = ["aliases, functions and PATH lookups are out of scope: the program name is the first word after bash's quote removal", "a program word containing an expansion ($x, $(..)) is never a table entry (tables_plain) and is answered ask"]
CWD = "/tmp/probe"


def table_names():
    import dippy.cli as CLI
    import dippy.core.allowlists as AL

    return set(AL.SIMPLE_SAFE) | set(AL.WRAPPER_COMMANDS) | set(CLI.KNOWN_HANDLERS) | {"[", "test"}


def help_shape(tokens) -> bool:
    if len(tokens) == 2 and tokens[1] in ("help", "version", "--version", "--help", "-h"):
        return True
    return 2 <= len(tokens) <= 4 and tokens[-1] in ("--help", "-h")


NAMES_OUT = ["frobnicate", "mytool", "lss", "l", "gitx", "cat2", "./ls", "/bin/ls", "/usr/bin/env", "../x", "a.out", "x=1y", "./x=1", "=x", "1x=2", "rmm", "Ls", "LS", "echo2", "-ls", "ls-", "py", "bash5", "évil", "ls​", "sh.", "zz_top", "X", "true2", "no-such"]


def gen_name(r, tables):
    k = r.random()
    if k < 0.45:
        return r.pick(NAMES_OUT)
    base = r.pick(sorted(tables))
    if k < 0.6:
        return base + r.pick(["x", "2", "_", "-new", ".sh"])
    if k < 0.7:
        return r.pick(["./", "/usr/bin/", "../", "~/bin/"]) + base
    if k < 0.8:
        return "\\" + base
    if k < 0.88:
        return base[:1] + '"' + base[1:] + '"'
    if k < 0.94:
        return "'" + base + "'x"
    return r.pick(["$x", "${cmd}", "$(echo " + base + ")", "`echo ls`"])


ARGS = [[], ["a"], ["-x", "b"], ["help"], ["version"], ["--help"], ["-h"], ["--version"], ["a", "--help"], ["a", "b", "-h"], ["a", "b", "c", "-h"], ["a", "b", "c", "--help"], ["--help", "x"], ["-h", "x"], ["a", "--version"], ["help", "me"], ["x y", "-h"], ["--", "-h"]]

MALFORMED = ["'unterminated", '"unterminated', "ls |", "| ls", "ls &&", "&& ls", "ls ;;", "if", "if true; then", "for", "case x in", "( ls", "ls )", "{ ls", "$(", "$((", "`", "ls > ", "ls <<", "ls \\", ";", "&", "!", "((", "[[", "[[ ]]", "fi", "done", "esac", "ls; )", "echo ${", "echo ${x", "a=(", "\x00", "ls\x00rm", "   ", "\t\n", "", "\n\n", "#only comment", "ls # c", "function", "function f", "f()", "select", "until", "while", "coproc", "time", "! !"]


CMD_POSITIONS = [
    "@", "X=1 @", "X=1 Y='a b' @", "time @", "! @", "( @ )", "{ @; }", "ls | @", "@ | cat", "true && @", "false || @", "ls; @", "@ &", "ls\n@",
    "if @; then :; fi", "if true; then @; fi", "if false; then :; else @; fi", "if false; then :; elif @; then :; fi", "while @; do break; done", "until @; do break; done",
    "while true; do @; break; done", "for i in a; do @; done", "for ((i=0;i<1;i++)); do @; done", "case x in x) @ ;; esac", "case x in a) : ;; *) @ ;; esac",
    "f() { @; }; f", "function g { @; }; g", "coproc @", "echo $(@)", "echo `@`", "cat <(@)", "echo hi > >(@)", "echo ${x:-$(@)}", "echo \"${x:-$(@)}\"", "[[ -n $(@) ]]", "(( $(@) ))",
    "echo $(( $(@) + 1 ))", "cat <<EOF\n$(@)\nEOF", "echo hi > $(@)", "a[$(@)]=1", "for i in $(@); do :; done", "case $(@) in x) ;; esac",
    "nohup @", "timeout 5 @", "timeout -s KILL 30s @", "nice -n 5 @", "command @", "command -- @", "env @", "env A=1 @", "env -u X @", "env -vu X @", "ls | xargs @", "ls | xargs -n1 @", "ls | xargs -rE EOF @",
    "sh -c '@'", "bash -lc '@'", "env -S '@'", "find . -maxdepth 0 -exec @ \\;", "find . -exec @ {} +", "strace @", "nohup nice timeout 5 @", "time nohup @", "strace -f @", "strace -x @", "strace -e trace=open @", "ltrace -S @", "ltrace -b @", "ltrace -n 2 @", "nohup ltrace -A 3 @", "strace -y -D @",
    "nice -n 5 -- @", "timeout --preserve-status -k 3 5 @", "command -p @",
]
UNKNOWN_NAMES = ["zz_unknown_tool", "\"zz_unknown_tool\"", "zz_unknown\\_tool", "'zz_unknown_tool'", "./zz_unknown_tool", "/opt/zz/bin/tool", "zz-tool.sh", "7zq", "ZZ_TOOL", "ls_", "git2", "rmm", "~/bin/zz", "zz\"_\"tool"]
UNKNOWN_ARGS = [["--force"], [], ["x", "y"], ["-rf", "x"], ["run", "--prod"], ["ls"], ["cat", "f"], ["echo", "hi"]]


HELPISH = ["help", "version", "--help", "--version", "-h", "-help", "-version", "---help", "--h", "-v", "-V", "HELP", "--Help", "-?", "h", "--help=x", "-hh", "helper", "-H"]
FILLERS = [[], ["-rf"], ["deploy"], ["-rf", "x"], ["make", "install"], ["a", "b", "c"], ["a", "b", "c", "d"]]


def documented_help_shape(words) -> bool:
    """the property's sole exception, restated: `cmd help|version|--version|--help|-h`, or at most four words ending in --help / -h"""
    if len(words) == 2 and words[1] in ("help", "version", "--version", "--help", "-h"):
        return True
    return len(words) <= 4 and len(words) >= 2 and words[-1] in ("--help", "-h")


def help_shape_args():
    """argument lists with a help-looking word at the end or in the middle that are NOT the documented help shape"""
    for fill in FILLERS:
        for hw in HELPISH:
            for args in (fill + [hw], [hw] + fill if fill else None):
                if args is None or documented_help_shape(["zz"] + args):
                    continue
                yield args


def unknown_matrix():
    """an unknown program in every command position x spellings of its name x argument lists (never a help request):
    deterministic, exercised on every run"""
    for pos in CMD_POSITIONS:
        for name in UNKNOWN_NAMES:
            for args in UNKNOWN_ARGS:
                cmd = " ".join([name] + args)
                if "'" in pos.replace("@", "") and "'" in cmd:
                    continue  # would need nested single quotes
                yield pos.replace("@", cmd)
    # a safe program's name with a character in front or behind that Python calls whitespace and bash does not: another program
    for pos in ("@", "true; @", "@ -la", "timeout 5 @"):
        for name in ("\x0cls", "\u00a0ls", "\x85cat f", "\x0bls", "ls\x0c", "\u2003ls", "\x1fls", "pwd\u00a0"):
            yield pos.replace("@", name)
    # help-looking words outside the documented help shape: a plain position, two more, every name spelling once
    for pos in ("@", "true && @", "timeout 5 @"):
        for name in ("zz_unknown_tool", "./zz_unknown_tool", "rmm"):
            for args in help_shape_args():
                yield pos.replace("@", " ".join([name] + args))


def correspondence(ctx):
    from dippy.core.config import parse_config

    m = ctx.model
    r = rng("c05-corr")
    tables = table_names()
    cfg = parse_config(B.CONFIG_TEXT)
    n = ctx.scale(1500, 40000) * (2 if ctx.broken else 1)

    def cases():
        for _ in range(n):
            x = r.random()
            if x < 0.55:
                name = gen_name(r, tables)
                args = r.pick(ARGS)
                yield " ".join([name] + [a if " " not in a else '"' + a + '"' for a in args]), None
            elif x < 0.7:
                t = r.pick(MALFORMED)
                if r.chance(0.3):
                    t = r.pick(["ls ", "", "echo hi; "]) + t + r.pick(["", " x", "\n"])
                yield t, None
            elif x < 0.75:
                # NB: Parable's running time is exponential in the nesting depth of `$(` (≈5 s at depth 10),
                # so that shape stays shallow here; see finding F06a
                d = r.randint(20, 150)
                d2 = r.randint(1, 6)
                yield r.pick(["(" * d + "ls" + ")" * d, "echo " + "$(echo " * d2 + "x" + ")" * d2, "{ " * d + "ls" + "; }" * d]), None
            else:
                yield B.Gen(r, exotic=True).program()[1], None

    PADS = ["", "", " ", "\t", "\n", " \n\t", "\x0c", "\u00a0"]

    def padded():
        # outer padding: what `analyze` strips (bash blanks) and what it must keep (form feed, NBSP) – ties `stripCmd`
        for cmd, extra in cases():
            if r.chance(0.12):
                cmd = r.pick(PADS) + cmd + r.pick(PADS)
            yield cmd, extra

    res = corr_run(m, padded(), cfg)
    res["area"] = "analyzer on unknown names / malformed text, outer padding (T1-b)"
    # exceptions on absurdly deep inputs are C06's business (the hook answers {}): not divergences here
    res["divergences"] = [d for d in res["divergences"] if d.get("kind") != "impl-exception" or "Recursion" not in str(d.get("impl"))]
    return [CC.corr_tables(m), res]


def bash_word(word: str):
    """the program name bash runs for this first word (quote removal, no expansion allowed to run)"""
    if any(ch in word for ch in "$`"):
        return None
    p = subprocess.run(["bash", "-c", 'set -f; eval "set -- $1"; printf "%s" "$1"', "_", word], capture_output=True, text=True, timeout=10)
    if p.returncode != 0:
        return None
    return p.stdout


def search(ctx):
    from dippy.core.analyzer import analyze
    from dippy.core.config import Config, parse_config

    r = rng("c05-search")
    tables = table_names()
    n = ctx.scale(700, 25000) * (4 if ctx.broken else 1)
    stats = collections.Counter()
    vios = []
    samples = []
    seen = set()
    cfg = Config()
    cache = {}
    for _ in range(n):
        name = gen_name(r, tables)
        args = list(r.pick(ARGS))
        if r.chance(0.3):
            args = args + [r.pick(["x", "-v", "--force"])]
        cmd = " ".join([name] + [a if " " not in a else '"' + a + '"' for a in args])
        d = analyze(cmd, cfg, Path(CWD))
        stats["evaluations"] += 1
        if cmd not in seen:
            seen.add(cmd)
            stats["distinct"] += 1
        if name not in cache:
            cache[name] = bash_word(name)
        real = cache[name]
        if real is None:
            # expansion-derived: never a table entry; must not be allowed outside the help shape
            real_tokens = None
        else:
            real_tokens = [real] + args
        stats["verdict:" + d.action] += 1
        if d.action == "allow":
            toks = real_tokens if real_tokens is not None else [name] + args
            on_table = real in tables if real is not None else False
            if real is not None and "=" in name and name.split("=", 1)[0].replace("_", "a").isalnum() and not name[0].isdigit():
                continue  # a genuine assignment prefix: the program is the next word
            if not on_table and not help_shape(toks):
                vios.append({"input": {"command": cmd, "config": "", "cwd": CWD}, "observed": {"verdict": d.action, "reason": d.reason, "program_bash_runs": real}, "required": "program on no table, no rule, not a help/version query: never allow", "oracle": "unknown-asks"})
        if len(samples) < 3:
            samples.append({"command": cmd, "program_bash_runs": real, "verdict": d.action})
        # a shell function of the same name that is NOT in effect when the command runs (defined later, behind a
        # short-circuit, in a subshell) does not make the external program known
        if real is not None and real == name and name.replace("_", "a").isalnum() and not name[0].isdigit() and real not in tables and not help_shape([real] + args) and r.chance(0.3):
            form = r.pick(["{c}; {n}() {{ echo done; }}", "true || {n}() {{ echo hi; }}; {c}", "false && {n}() {{ echo hi; }}; {c}", "{c} | cat; function {n} {{ echo done; }}",
                           "( {n}() {{ echo sub; }} ); {c}", "{c}\n{n}() {{ echo later; }}", "{n}x() {{ echo other; }}; {c}"])
            text = form.format(c=cmd, n=name)
            d2 = analyze(text, cfg, Path(CWD))
            stats["evaluations"] += 1
            stats["function_context_probes"] += 1
            if d2.action == "allow":
                vios.append({"input": {"command": text, "config": "", "cwd": CWD}, "observed": {"verdict": d2.action, "reason": d2.reason, "program_bash_runs": real}, "required": "a function definition that is not in effect does not make an unknown program known: never allow", "oracle": "unknown-asks"})
        if len(vios) >= 5:
            break
    # the deterministic matrix: an unknown program in every command position is never auto-approved
    for cmd in unknown_matrix():
        try:
            d = analyze(cmd, cfg, Path(CWD))
        except Exception:  # noqa: BLE001
            continue
        stats["evaluations"] += 1
        stats["matrix:" + d.action] += 1
        if d.action == "allow" and stats["matrix_violations"] < 5:
            stats["matrix_violations"] += 1
            vios.insert(0, {"input": {"command": cmd, "config": "", "cwd": CWD}, "observed": {"verdict": d.action, "reason": d.reason}, "required": "an unknown program (no table, no rule, not a help request) in any command position: never allow", "oracle": "unknown-asks(position matrix)"})
    # the always-safe list must not contain a program that runs its arguments (table obligation
    # no_launcher_in_simple_safe): probe each launcher with an inner command that needs a prompt
    for L in ["eval", "exec", "source", "sh", "bash", "zsh", "xargs", "env", "sudo", "doas", "watch", "parallel", "chroot", "nsenter", "setsid", "nohup", "timeout", "nice", "strace", "builtin", "stdbuf", "flock", "ionice", "taskset"]:
        for inner in (["frobnicate", "x"], ["rm", "-rf", "x"]):
            pre = {"timeout": ["5"], "chroot": ["/"], "flock": ["/tmp/l"], "taskset": ["1"]}.get(L, [])
            cmd = " ".join([L] + pre + inner)
            d = analyze(cmd, cfg, Path(CWD))
            stats["evaluations"] += 1
            stats["launcher_probes"] += 1
            if d.action == "allow":
                vios.append({"input": {"command": cmd, "config": "", "cwd": CWD}, "observed": {"verdict": d.action, "reason": d.reason}, "required": "a launcher does not make an unknown/destructive inner command allowed", "oracle": "launcher-not-safe"})
    # unparseable / empty => ask
    for t in MALFORMED:
        for pre in ("", "ls; "):
            text = pre + t
            try:
                d = analyze(text, cfg, Path(CWD))
            except Exception as e:  # noqa: BLE001
                vios.append({"input": {"command": text, "config": "", "cwd": CWD}, "observed": {"exception": repr(e)}, "required": "unparseable input yields ask", "oracle": "parse-error-asks"})
                continue
            stats["evaluations"] += 1
            stats["malformed"] += 1
            bash_ok = "\x00" not in text and subprocess.run(["bash", "-n", "-c", text], capture_output=True).returncode == 0
            if not text.strip() and d.action != "ask":
                vios.append({"input": {"command": text, "config": "", "cwd": CWD}, "observed": {"verdict": d.action}, "required": "empty / whitespace-only command yields ask", "oracle": "empty-asks"})
            # what the property quantifies over is the strings *Dippy's parser* rejects
            try:
                from dippy.vendor.parable import parse as _parse, ParseError as _PE

                _parse(text.strip()) if text.strip() else None
                parable_rejects = False
            except _PE:
                parable_rejects = True
            except Exception:  # noqa: BLE001
                parable_rejects = True
            if parable_rejects and d.action != "ask":
                vios.append({"input": {"command": text, "config": "", "cwd": CWD}, "observed": {"verdict": d.action, "reason": d.reason}, "required": "text the parser rejects yields ask", "oracle": "parse-error-asks"})
            if not bash_ok and d.action == "allow":
                # bash rejects it (nothing would run) but Parable accepts it: an observation about the
                # vendored parser, not a violation of C05 as stated
                stats["observation:bash_rejects_parable_accepts_allow"] += 1
    return {"violations": vios[:5], "evaluations": stats["evaluations"], "distinct_nontrivial": stats["distinct"], "stats": dict(stats), "samples": samples, "oracle": "program name by real bash quote removal vs tables; help shape; malformed text"}


def matches_finding(entry, v) -> bool:
    return False


def finding_still_fails(ctx, entry) -> bool:
    return False


def replay(payload) -> int:
    from dippy.core.analyzer import analyze
    from dippy.core.config import parse_config

    inp = payload["input"]
    d = analyze(inp["command"], parse_config(inp.get("config", "")), Path(inp.get("cwd", CWD)))
    print("observed now:", d.action, "|", d.reason, "| required:", payload.get("required"))
    return 1 if d.action == "allow" else 0
