"""C10 — config layers: user, nearest project file, then $DIPPY_CONFIG."""
from __future__ import annotations

import collections
import os
import pathlib

import corr_config as CC
import corr_load as CL
from common import rng

ID = "C10"
PROP_FILES = ["C10"]
RULE = (
    "correspondence: the real load_config on generated directory layouts (depth 1-5; .dippy absent / file / empty file / directory / symlink to file / symlink to dir / dangling at every level; "
    "cwd anywhere, also through a symlinked directory; each layer present or absent; DIPPY_CONFIG unset, set, empty, ~-relative, missing, a directory; unreadable and undecodable layers) with every Path.is_file / "
    "read_text / resolve answer recorded and given to the model as the FS oracle; compared on the whole observable Config or the error class and message. "
    "search: on the implementation, load_config(layout) must equal parse_config(user + newline + nearest project + newline + env) where the nearest project file is computed independently from the layout spec."
)
TRUSTED = ["T1 correspondence harness (corr_load.py): USER_CONFIG is re-pointed per layout in-process (it is computed at import from HOME)", "pathlib is_file/read_text/resolve recorded as the FS oracle"]
ASSUMES = ["aliases of the three layers are tied by correspondence only (the Lean statement layers_concat covers rule lists, log and log-full)", "Config.default is dead code (its merge rule is not a homomorphism: C11.default_not_hom)"]


def correspondence(ctx):
    k = 2 if ctx.broken else 1
    return [CL.corr_load(ctx.model, rng("c10-load"), ctx.scale(400, 6000) * k), CC.corr_parse(ctx.model, rng("c10-parse"), ctx.scale(400, 10000) * k)]


def strip_tags(j):
    j = dict(j)
    j.pop("default", None)
    return j


def search(ctx):
    from dippy.core import config as C

    r = rng("c10-search")
    n = ctx.scale(400, 8000) * (4 if ctx.broken else 1)
    stats = collections.Counter()
    vios = []
    samples = []
    for _ in range(n):
        lay = CL.Layout(r)
        try:
            impl, _fs = CL.run_load(lay)
            stats["evaluations"] += 1
            with CL.layout_env(lay):
                want = strip_tags(CC.cfg_to_json(C.parse_config(lay.concatenated())))
            if not (isinstance(impl, dict) and "ok" in impl):
                vios.append({"input": {"layout": lay.kinds, "cwd_level": lay.cwd_index, "user": lay.user_text, "env": lay.env_value}, "observed": impl, "required": "readable layout loads", "oracle": "layers-concat"})
            else:
                got = strip_tags(impl["ok"])
                nl = sum(x is not None for x in (lay.user_text, lay.expected_project(), lay.env_text))
                stats["layers=%d" % nl] += 1
                if got["rules"]:
                    stats["distinct"] += 1
                if got != want:
                    vios.append({"input": {"dippy_kinds_root_to_leaf": lay.kinds, "cwd_level": lay.cwd_index, "cwd_is_symlink": os.path.islink(lay.cwd), "user_text": lay.user_text, "project_texts": {os.path.relpath(k, lay.root): v for k, v in lay.texts.items()}, "env_value": lay.env_value and os.path.relpath(lay.env_value, lay.root) if lay.env_value and lay.env_value.startswith(lay.root) else lay.env_value, "env_text": lay.env_text, "file_modes": lay.modes}, "observed": {"loaded": got}, "required": {"like_one_file": lay.concatenated(), "parsed": want}, "oracle": "layers-concat"})
                elif len(samples) < 3:
                    samples.append({"dippy_kinds_root_to_leaf": lay.kinds, "cwd_level": lay.cwd_index, "layers": nl, "rules": [x["pattern"] for x in got["rules"]][:6]})
        finally:
            lay.cleanup()
        if len(vios) >= 3:
            break
    return {"violations": vios[:3], "evaluations": stats["evaluations"], "distinct_nontrivial": stats["distinct"], "stats": dict(stats), "samples": samples, "oracle": "load_config(layout) == parse_config(user ⏎ nearest project ⏎ env)"}


def matches_finding(entry, v) -> bool:
    return False


def finding_still_fails(ctx, entry) -> bool:
    return False


def replay(payload) -> int:
    print(payload.get("input"))
    print("required:", payload.get("required"))
    print("(layout replays are rebuilt by re-running the check with the same VERIF_SEED)")
    return 1
