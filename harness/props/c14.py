"""C14 — MCP rules and shell rules never influence each other."""
from __future__ import annotations

import collections
from pathlib import Path

import os
import shutil
import tempfile
import types

import corr_config as CC
import corr_load as CL
from common import rng

ID = "C14"
PROP_FILES = ["C14"]
RULE = (
    "correspondence: match_mcp / match_after_mcp / match_after and parse_config on generated mixed rule texts; load_config (the layer merge) on generated directory layouts. "
    "search: paired config texts that differ only in the lines of one family (deleted, duplicated, reordered): every output of the other family "
    "(match_mcp + check_mcp_tool envelope for tool names; analyze verdict+reason for shell commands) must be identical; no matching mcp rule => {}. "
    "The same paired edits are made inside each of the three config layers (user / project .dippy / $DIPPY_CONFIG) and read back through the real load_config."
)
TRUSTED = ["T1 correspondence harness (corr_config.py)", "CPython fnmatch modelled by hand (Model/Glob.lean)"]
ASSUMES = ["hook-level routing of MCP tool names is covered by C06/C12 (Model/Hook.lean)"]
CWD = "/tmp/probe"
TOOLS = ["mcp__github__get_issue", "mcp__github__create_pr", "mcp__fs__read_file", "mcp__x__y", "mcp__a__b", "mcp__", "mcp__git status", "mcp__ls"]


def correspondence(ctx):
    m = ctx.model
    k = 2 if ctx.broken else 1
    return [
        CC.corr_after_mcp(m, rng("c14-am"), ctx.scale(500, 20000) * k),
        CC.corr_parse(m, rng("c14-parse"), ctx.scale(800, 30000) * k),
        CC.corr_fnmatch(m, rng("c14-fn"), ctx.scale(3000, 100000) * k),
        CL.corr_load(m, rng("c14-load"), ctx.scale(150, 3000) * k, faults=False),
    ]


def mixed_text(r):
    lines = []
    for _ in range(r.randint(2, 10)):
        k = r.random()
        if k < 0.45:
            lines.append(r.pick(["allow-mcp", "ask-mcp", "deny-mcp"]) + " " + r.pick(["mcp__github__*", "mcp__*", "mcp__fs__read_file", "mcp__[ax]__?", "*", "mcp__github__create_*"]) + r.pick(["", ' "m"']))
        elif k < 0.55:
            lines.append("after-mcp " + r.pick(["mcp__github__*", "*"]) + r.pick(["", ' "posted"']))
        elif k < 0.62:
            # a *shell* rule whose pattern looks like an MCP tool name (and the other way round)
            lines.append(r.pick(["allow", "ask", "deny"]) + " " + r.pick(["mcp__github__*", "mcp__fs__read_file", "mcp__*", "mcp__github__get_issue x"]) + r.pick(["", ' "shell family"']))
        elif k < 0.66:
            lines.append(r.pick(["allow-mcp", "deny-mcp"]) + " " + r.pick(["git *", "ls", "rm*", "*"]))
        elif k < 0.8:
            lines.append(CC.gen_rules_text(r, k=1).strip())
        elif k < 0.9:
            lines.append(CC.gen_redirect_rules(r, k=1).strip())
        else:
            lines.append(r.pick(["alias g git", "set log-full", "# c", "after git push \"ci\"", "allow-redirect /tmp/**/[z-a]*", "deny-redirect **/*[\\]", "ask-redirect /var/**/[\\q]", "allow ~nosuchuser/bin/deploy *", "deny ~root/x", "allow-redirect ~nosuchuser/out/**", "alias ~nobody9/bin/t abc", "ask ~*/x", "deny-redirect ~/.ssh/**"]))
    return [l for l in lines if l]


def is_mcp_line(l: str) -> bool:
    d = l.split(None, 1)[0].lower() if l.split() else ""
    return d in ("allow-mcp", "ask-mcp", "deny-mcp", "after-mcp")


def search(ctx):
    from dippy import dippy as D
    from dippy.core import config as C
    from dippy.core.analyzer import analyze

    r = rng("c14-search")
    n = ctx.scale(400, 15000) * (5 if ctx.broken else 1)
    stats = collections.Counter()
    vios = []
    samples = []
    seen = set()
    for _ in range(n):
        lines = mixed_text(r)
        text = "\n".join(lines) + "\n"
        mcp_lines = [l for l in lines if is_mcp_line(l)]
        sh_lines = [l for l in lines if not is_mcp_line(l)]
        # edit only the MCP family: delete / duplicate / shuffle
        edited = list(mcp_lines)
        r.shuffle(edited)
        edited = edited[: r.randint(0, len(edited))] + ([r.pick(["deny-mcp *", "allow-mcp mcp__*"])] if r.chance(0.4) else [])
        text_mcp_edit = "\n".join(sh_lines[: len(sh_lines) // 2] + edited + sh_lines[len(sh_lines) // 2 :]) + "\n"
        sh_edit = list(sh_lines)
        r.shuffle(sh_edit)
        sh_edit = sh_edit[: r.randint(0, len(sh_edit))] + ([r.pick(["deny *", "allow git *", "deny-redirect **"])] if r.chance(0.4) else [])
        text_sh_edit = "\n".join(mcp_lines[: len(mcp_lines) // 2] + sh_edit + mcp_lines[len(mcp_lines) // 2 :]) + "\n"
        # NB: the relative order of mcp lines is kept in text_sh_edit, of shell lines in text_mcp_edit
        def P(t):
            # a configuration text that makes the loader raise is answered {} (defer) by the hook for every tool and every command
            try:
                return C.parse_config(t)
            except Exception as e:  # noqa: BLE001
                stats["parse_raised"] += 1
                return e

        cfg, cfg_m, cfg_s = P(text), P(text_mcp_edit), P(text_sh_edit)
        if isinstance(cfg, Exception) != isinstance(cfg_s, Exception) or isinstance(cfg, Exception) != isinstance(cfg_m, Exception):
            which = "shell" if isinstance(cfg, Exception) != isinstance(cfg_s, Exception) else "mcp"
            vios.append({"input": {"config": text, "config_edited": text_sh_edit if which == "shell" else text_mcp_edit}, "observed": {"parse": repr(cfg)[:200], "parse_edited": repr(cfg_s if which == "shell" else cfg_m)[:200]}, "required": "editing the lines of one family never makes the configuration (hence every verdict of the other family) unavailable", "oracle": "family-edit-keeps-config-loadable"})
            continue
        if isinstance(cfg, Exception):
            continue
        if text not in seen:
            seen.add(text)
            stats["distinct"] += 1
        for ws in [r.pick(CC.CMD_WORDS) for _ in range(3)] + [r.pick([["mcp__fs__read_file"], ["mcp__github__get_issue", "x"], ["mcp__x"]])]:
            if any(" " in w or "*" in w for w in ws):
                continue
            cmd = " ".join(ws)
            a, b = analyze(cmd, cfg, Path(CWD)), analyze(cmd, cfg_m, Path(CWD))
            stats["evaluations"] += 2
            if (a.action, a.reason) != (b.action, b.reason):
                vios.append({"input": {"command": cmd, "config": text, "config_edited": text_mcp_edit, "cwd": CWD}, "observed": {"verdict": [a.action, a.reason], "after_mcp_edit": [b.action, b.reason]}, "required": "editing *-mcp lines never changes a shell verdict", "oracle": "shell-ignores-mcp"})
        for tool in (r.pick(TOOLS) for _ in range(3)):
            D.MODE = "claude"
            a, b = D.check_mcp_tool(tool, cfg), D.check_mcp_tool(tool, cfg_s)
            stats["evaluations"] += 2
            if a != b:
                vios.append({"input": {"tool": tool, "config": text, "config_edited": text_sh_edit}, "observed": {"envelope": a, "after_shell_edit": b}, "required": "editing shell rule lines never changes an MCP verdict", "oracle": "mcp-ignores-shell"})
            # last matching glob wins / no match => {}
            import fnmatch

            hits = [x for x in cfg.mcp_rules if fnmatch.fnmatch(tool, x.pattern)]
            want = hits[-1].decision if hits else None
            got = None if a == {} else a["hookSpecificOutput"]["permissionDecision"]
            stats["mcp_last_checks"] += 1
            if got != want:
                vios.append({"input": {"tool": tool, "config": text}, "observed": {"envelope": a}, "required": f"last matching *-mcp glob decides (none => {{}}): {want}", "oracle": "mcp-last-match"})
            if len(samples) < 3:
                samples.append({"config": text, "tool": tool, "decision": got})
        if len(vios) >= 5:
            break
    if len(vios) < 5:
        layered_search(ctx, r, ctx.scale(300, 10000) * (5 if ctx.broken else 1), stats, vios)
    return {"violations": vios[:5], "evaluations": stats["evaluations"], "distinct_nontrivial": stats["distinct"], "stats": dict(stats), "samples": samples, "oracle": "family-independence by paired config edits; mcp last-match; no match => {}"}


class Layers:
    """user / project / env files in a scratch tree, read through the real load_config"""

    def __init__(self):
        self.root = tempfile.mkdtemp(prefix="dippy-verif-c14-")
        self.home = os.path.join(self.root, "home")
        self.proj = os.path.join(self.root, "w")
        os.makedirs(os.path.join(self.home, ".dippy"))
        os.makedirs(self.proj)
        self.env_value = os.path.join(self.root, "env.conf")

    def load(self, texts):
        from dippy.core import config as C

        for path, t in zip((os.path.join(self.home, ".dippy", "config"), os.path.join(self.proj, ".dippy"), self.env_value), texts):
            if t is None:
                if os.path.exists(path):
                    os.unlink(path)
            else:
                open(path, "w").write(t)
        lay = types.SimpleNamespace(home=self.home, env_value=self.env_value if texts[2] is not None else None)
        with CL.layout_env(lay):
            return C.load_config(Path(self.proj))

    def cleanup(self):
        shutil.rmtree(self.root, ignore_errors=True)


def layered_search(ctx, r, n, stats, vios):
    """the same family-only edits, made inside each config layer"""
    from dippy import dippy as D
    from dippy.core.analyzer import analyze

    L = Layers()
    try:
        for _ in range(n):
            layers = [mixed_text(r)[: r.randint(0, 4)] if r.chance(0.8) else None for _ in range(3)]

            def edit(fam_is_mcp):
                out = []
                for ls in layers:
                    if ls is None:
                        out.append(None)
                        continue
                    keep = [l for l in ls if is_mcp_line(l) != fam_is_mcp]
                    fam = [l for l in ls if is_mcp_line(l) == fam_is_mcp]
                    r.shuffle(fam)
                    fam = fam[: r.randint(0, len(fam))]
                    if r.chance(0.4):
                        fam.append(r.pick(["deny-mcp *", "allow-mcp mcp__*", "ask-mcp mcp__github__*"]) if fam_is_mcp else r.pick(["deny *", "ask mcp__*", "allow git *", "deny-redirect **", "allow mcp__github__*"]))
                    out.append(keep[: len(keep) // 2] + fam + keep[len(keep) // 2 :])
                return out

            def text(ls):
                return None if ls is None else "".join(l + "\n" for l in ls)

            base_t = [text(x) for x in layers]
            mcp_t = [text(x) for x in edit(True)]
            sh_t = [text(x) for x in edit(False)]
            cfg, cfg_m, cfg_s = L.load(base_t), L.load(mcp_t), L.load(sh_t)
            stats["layered_configs"] += 1
            stats["layers=%d" % sum(x is not None for x in layers)] += 1
            for ws in [r.pick(CC.CMD_WORDS) for _ in range(3)] + [["mcp__fs__read_file"], ["mcp__x"]]:
                if any(" " in w or "*" in w for w in ws):
                    continue
                cmd = " ".join(ws)
                a, b = analyze(cmd, cfg, Path(CWD)), analyze(cmd, cfg_m, Path(CWD))
                stats["evaluations"] += 2
                if (a.action, a.reason) != (b.action, b.reason):
                    vios.append({"input": {"command": cmd, "layers_user_project_env": base_t, "layers_edited": mcp_t, "cwd": CWD}, "observed": {"verdict": [a.action, a.reason], "after_mcp_edit": [b.action, b.reason]}, "required": "editing *-mcp lines (in any layer) never changes a shell verdict", "oracle": "shell-ignores-mcp"})
            for tool in (r.pick(TOOLS) for _ in range(4)):
                D.MODE = "claude"
                a, b = D.check_mcp_tool(tool, cfg), D.check_mcp_tool(tool, cfg_s)
                stats["evaluations"] += 2
                if a != b:
                    vios.append({"input": {"tool": tool, "layers_user_project_env": base_t, "layers_edited": sh_t}, "observed": {"envelope": a, "after_shell_edit": b}, "required": "editing shell rule lines (in any layer) never changes an MCP verdict", "oracle": "mcp-ignores-shell"})
            if len(vios) >= 5:
                break
    finally:
        L.cleanup()


def matches_finding(entry, v) -> bool:
    return False


def finding_still_fails(ctx, entry) -> bool:
    return False


def replay(payload) -> int:
    from dippy import dippy as D
    from dippy.core import config as C
    from dippy.core.analyzer import analyze

    inp = payload["input"]
    if "tool" not in inp and "command" not in inp:
        for k in ("config", "config_edited"):
            try:
                C.parse_config(inp[k])
                print(k, "parses")
            except Exception as e:  # noqa: BLE001
                print(k, "raises", repr(e))
        print("required:", payload.get("required"))
        return 1
    if "layers_user_project_env" in inp:
        L = Layers()
        try:
            c1, c2 = L.load(inp["layers_user_project_env"]), L.load(inp["layers_edited"])
        finally:
            L.cleanup()
        if "tool" in inp:
            D.MODE = "claude"
            a, b = D.check_mcp_tool(inp["tool"], c1), D.check_mcp_tool(inp["tool"], c2)
            print("envelope:", a, "| edited:", b, "| required:", payload.get("required"))
            return 1 if a != b else 0
        a, b = analyze(inp["command"], c1, Path(inp.get("cwd", CWD))), analyze(inp["command"], c2, Path(inp.get("cwd", CWD)))
        print("verdict:", a, "| edited:", b, "| required:", payload.get("required"))
        return 1 if (a.action, a.reason) != (b.action, b.reason) else 0
    if "tool" in inp:
        a = D.check_mcp_tool(inp["tool"], C.parse_config(inp["config"]))
        b = D.check_mcp_tool(inp["tool"], C.parse_config(inp.get("config_edited", inp["config"])))
        print("envelope:", a, "| edited:", b, "| required:", payload.get("required"))
        return 1 if (a != b or "last matching" in payload.get("required", "")) else 0
    a = analyze(inp["command"], C.parse_config(inp["config"]), Path(inp.get("cwd", CWD)))
    b = analyze(inp["command"], C.parse_config(inp.get("config_edited", inp["config"])), Path(inp.get("cwd", CWD)))
    print("verdict:", a, "| edited:", b, "| required:", payload.get("required"))
    return 1 if (a.action, a.reason) != (b.action, b.reason) else 0
