"""C02 — no unapproved file writes: approved commands modify only granted files."""
from __future__ import annotations

import collections
import os
import shutil
from concurrent.futures import ThreadPoolExecutor
from pathlib import Path

import bashgen as B
import corr_config as CC
from common import rng
from corr_analyzer import correspondence_cfg
from jail import Jail

ID = "C02"
PROP_FILES = ["C02"]
RULE = (
    "correspondence: the real analyze() vs the model (rule lookups computed by the model from the parsed configuration) on commands combining every redirection operator and fd prefix with target spellings on every "
    "redirectable node kind, cd prefixes, the modelled tools' write options, and generated redirect-rule sets. search (T2): every generated command Dippy approves is executed by real bash 5.2 with real tee/sort/sed/awk/iconv in a jail "
    "(other commands are stubs); every file created, truncated, appended to or replaced must be one for which the real match_redirect, given the file's real path, answers allow."
)
TRUSTED = ["T0 translator (operator table, safe targets)", "T1 correspondence harness (config mode)", "tool handlers tee/sort/sed/awk/curl/wget/iconv are oracles of the model (World.classify); their option grammar is validated against the real tools by T2 only",
           "real bash, GNU coreutils, sed, awk, iconv in the jail; curl/wget are not executed (no network)"]
ASSUMES = ["no symlinks inside the jail other than those the generator creates", "the directory bash is in when it opens a target is the one the model tracks: a literal `cd` as the first element of a list (other cd positions: finding F02b)"]

OPS = [">", ">>", "&>", "&>>", "2>", "2>>", ">|", "1>", "3>>", "{fd}>", ">&", "<>", "3<>", "2>|"]
NODES = ["{cmd}{r}", "{{ {cmd}; }}{r}", "( {cmd} ){r}", "if true; then {cmd}; fi{r}", "while false; do {cmd}; done{r}", "until true; do {cmd}; done{r}", "for i in 1; do {cmd}; done{r}", "for ((i=0;i<1;i++)); do {cmd}; done{r}", "case x in x) {cmd};; esac{r}", "[[ -n x ]]{r}", "(( 1 )){r}", "{cmd}{r} | cat", "true && {cmd}{r}", "f() {{ {cmd}{r}; }}; f", "time {cmd}{r}", "! {cmd}{r}"]
CD_FORMS = [("okdir-literal", "cd okdir && {x}"), ("first-literal", "cd sub && {x}"), ("first-literal", "cd sub; {x}"), ("not-first", "true; cd sub; {x}"), ("newline", "cd sub\n{x}"), ("in-if", "if cd sub; then {x}; fi"), ("in-group", "{{ cd sub; }}; {x}"),
            ("subshell", "(cd sub); {x}"), ("pipeline", "cd sub | {x}"), ("or", "cd nonexistent || {x}"), ("with-flag", "cd -P sub && {x}"), ("chained", "cd sub && cd .. && {x}"), ("variable", "d=sub; cd $d; {x}"), ("pushd", "pushd sub >/dev/null; {x}")]
TOOLS = ["echo data | tee {f}", "echo data | tee -a {f}", "sort -o {f} in", "sort -ro {f} in", "sort --output={f} in", "sed -i s/a/b/ {f}", "sed -ni s/a/b/p {f}", "sed -n 'w {f}' in", "sed 's/a/b/w {f}' in",
         "awk '{{print > \"{f}\"}}' in", "awk '{{print >> \"{f}\"}}' in", "iconv -f utf-8 -t ascii -o {f} in", "iconv -o{f} in"]


def targets(work):
    return ["ok", "okdir/a", "okdir/deep/b", "f", "no", "q", "sub/x", "./ok", "okdir/../f", work + "/ok", work + "/f", '"ok"', "'okdir/a'", "-", "/dev/null", "&1", "../escape", "ok/", "okdir//a", "sub/../ok", "3", "10", "007", "&2", "&-", "1", "-x", "~nobody", ".", "ok.1", "okdir/link/x", "okdir/link/../esc", "okdir/cur.log", "okdir/./link/y", "cur.log", "lnk.log",
            # quoting inside the word: bash removes it before opening the file
            'okdir/".."/esc_q', "okdir/'..'/esc_s", "okdir/\\.\\./esc_b", 'okdir/..""/esc_e', "'&amp_file'", 'okdir/a"b"', '"okdir"/../esc_d', "ok\\dir/../esc_k", work + '/okdir/".."/esc_abs']


def config_for(work, r):
    lines = ["allow-redirect " + work + "/ok", "allow-redirect " + work + "/okdir/**", "deny-redirect " + work + "/no \"no\"", "ask-redirect " + work + "/q"]
    extra = ["allow-redirect " + work + "/*.log", "allow-redirect *.log", "allow-redirect sub/**", "allow-redirect " + work + "/sub/x", "deny-redirect " + work + "/okdir/deep/**", "allow-redirect f", "ask-redirect **/f", "allow-redirect " + work + "/**", "deny-redirect **"]
    for _ in range(r.randint(0, 2)):
        lines.insert(r.randrange(len(lines) + 1), r.pick(extra))
    return "\n".join(lines) + "\n"


def gen_case(r, work):
    """(command text, cd position label or None)"""
    k = r.random()
    tg = targets(work)
    if k < 0.55:
        cmd = r.pick(["echo hi", "true", "ls", "echo a b"])
        red = " " + r.pick(OPS) + " " + r.pick(tg)
        if r.chance(0.15):
            red += " " + r.pick(["2>&1", "2>/dev/null", r.pick(OPS) + " " + r.pick(tg)])
        x = r.pick(NODES).format(cmd=cmd, r=red)
    elif k < 0.8:
        x = r.pick(TOOLS).format(f=r.pick([t for t in tg if not t.startswith(("&", '"', "'", "-"))]))
    else:
        x = "echo hi " + r.pick(OPS) + " " + r.pick(tg)
    cd = None
    if r.chance(0.3):
        cd, form = r.pick(CD_FORMS)
        x = form.format(x=x)
    return x, cd


def correspondence(ctx):
    r = rng("c02-corr")
    work = "/tmp/probe"
    n = ctx.scale(1200, 40000) * (2 if ctx.broken else 1)

    def cases():
        cfgs = [config_for(work, r) for _ in range(12)]
        for _ in range(n):
            x, _cd = gen_case(r, work)
            yield x, r.pick(cfgs), work

    g = B.Gen(r, exotic=True)

    def cases2():
        for _ in range(n // 3):
            yield g.program()[1], B.CONFIG_TEXT, work

    return [CC.corr_tables(ctx.model), correspondence_cfg(ctx.model, cases(), area="analyze: redirect operators x nodes x cd x tools (config mode)"), correspondence_cfg(ctx.model, cases2(), area="analyze: generated programs (config mode)")]


def snapshot(root):
    out = {}
    for d, dirs, files in os.walk(root):
        for f in files:
            p = os.path.join(d, f)
            try:
                st = os.lstat(p)
                out[p] = (st.st_ino, st.st_size, st.st_mtime_ns)
            except OSError:
                pass
    return out


def merge_layers(C, layers):
    """the configuration load_config builds from these layer texts (user, project, env): parse each, merge in order"""
    cfg = C.Config()
    for i, t in enumerate(layers):
        cfg = C._merge_configs(cfg, C.parse_config(t, source="layer%d" % i) if "source" in C.parse_config.__code__.co_varnames else C.parse_config(t))
    return cfg


def search(ctx):
    from dippy.core import config as C
    from dippy.core.analyzer import analyze

    r = rng("c02-search")
    stats = collections.Counter()
    vios = []
    samples = []
    n = ctx.scale(700, 25000) * (3 if ctx.broken else 1)
    workers = 12
    jails = [Jail(["ls", "git", "true"], real=["tee", "sort", "sed", "awk", "iconv", "cat", "touch"]) for _ in range(workers)]
    try:
        # deterministic sweep: every operator x every node kind x every target spelling, and every tool x target, under the
        # base configuration; a third of it per run in the quick tier (rotating with the seed), all of it in the thorough tier
        sweep = []
        tg0 = targets("@WORK@")
        for op in OPS:
            for node in NODES:
                for t in tg0:
                    sweep.append(node.format(cmd="echo hi", r=" " + op + " " + t))
        for tool in TOOLS:
            for t in tg0:
                if not t.startswith(("&", '"', "'", "-")):
                    sweep.append(tool.format(f=t))
        step = 1 if ctx.tier == "thorough" or ctx.broken else 3
        off = r.randrange(step)
        sweep = [x for i, x in enumerate(sweep) if i % step == off]
        # layered configurations (user file, project file, $DIPPY_CONFIG merge in this order; rules accumulate): a grant and the
        # rule that withdraws part of it, spread over the layers in every order that leaves the withdrawal last - also when the
        # withdrawing line is written in an earlier layer as well (a project file often repeats the user's rules)
        W = "@WORK@"
        pairs = [("allow-redirect " + W + "/okdir/**", "deny-redirect " + W + "/okdir/deep/**", "okdir/deep/b"), ("allow-redirect " + W + "/**", "deny-redirect " + W + "/no \"no\"", "no"),
                 ("allow-redirect f", "ask-redirect **/f", "f"), ("allow-redirect " + W + "/okdir/**", "ask-redirect " + W + "/okdir/a \"asked\"", "okdir/a"), ("allow-redirect sub/**", "deny-redirect " + W + "/sub/x", "sub/x")]
        for grant, withdraw, t in pairs:
            for layers in ([[withdraw], [grant, withdraw]], [[withdraw, grant], [withdraw]], [[withdraw], [grant], [withdraw]], [[grant], [withdraw]], [[grant, withdraw], [withdraw]], [[withdraw], [], [grant, withdraw]]):
                for x in ("echo hi > " + t, "echo hi | tee " + t, "{ echo hi; } >> " + t):
                    sweep.append({"x": x, "layers": ["\n".join(l) + "\n" if l else "" for l in layers]})
        stats["sweep_commands"] = len(sweep)

        def run_many(jail, k):
            rr = rng("c02-search-%d" % k)
            out = []
            mine = sweep[k::workers]
            for it in range(len(mine) + n // workers):
                jail.reset()
                work = jail.work
                for d in ("sub", "okdir/deep"):
                    os.makedirs(os.path.join(work, d), exist_ok=True)
                for f, data in (("in", "b\na\n"), ("ok", "old\n"), ("no", "old\n"), ("f", "a\n"), ("okdir/a", "a\n"), ("sub/x", "a\n"), ("sub/f", "a\n"), ("sub/ok", "a\n")):
                    with open(os.path.join(work, f), "w") as fh:
                        fh.write(data)
                os.utime(os.path.join(work, "in"))
                # a symlink inside a granted directory that leads out of it, and a link to a file
                os.makedirs(os.path.join(jail.root, "outside"), exist_ok=True)
                for link, dest in (("okdir/link", os.path.join(jail.root, "outside")), ("okdir/cur.log", os.path.join(work, "no")), ("lnk.log", os.path.join(work, "no"))):
                    lp = os.path.join(work, link)
                    if not os.path.lexists(lp):
                        os.symlink(dest, lp)
                layers = None
                if it < len(mine) and isinstance(mine[it], dict):
                    layers = [t.replace("@WORK@", work) for t in mine[it]["layers"]]
                    x, cd = mine[it]["x"], None
                elif it < len(mine):
                    cfg_text = "allow-redirect " + work + "/ok\nallow-redirect " + work + "/okdir/**\ndeny-redirect " + work + "/no \"no\"\nask-redirect " + work + "/q\n"
                    x, cd = mine[it].replace("@WORK@", work), None
                else:
                    cfg_text = config_for(work, rr)
                    x, cd = gen_case(rr, work)
                    if rr.chance(0.3):
                        # the same rules in layers, one or two lines repeated further down
                        lines = cfg_text.splitlines()
                        for _ in range(rr.randint(1, 2)):
                            i0 = rr.randrange(len(lines))
                            lines.insert(rr.randint(i0 + 1, len(lines)), lines[i0])
                        c1, c2 = sorted([rr.randint(0, len(lines)), rr.randint(0, len(lines))])
                        layers = ["".join(l + "\n" for l in part) for part in (lines[:c1], lines[c1:c2], lines[c2:])]
                if layers is not None:
                    # the reference: rules accumulate in load order, so the layers read like their concatenation (property C14)
                    cfg_text = "".join(layers)
                    cfg = merge_layers(C, layers)
                    oracle_cfg = C.parse_config(cfg_text)
                else:
                    cfg = oracle_cfg = C.parse_config(cfg_text)
                d = analyze(x, cfg, Path(work))
                if d.action != "allow":
                    out.append(("skip", d.action))
                    continue
                before = snapshot(jail.root)
                # run without reset (the tree was prepared above)
                env = {"PATH": jail.bin, "HOME": work, "JAIL_LOG": jail.log, "JAIL_STATE": jail.state, "LANG": "C"}
                import signal
                import subprocess

                proc = subprocess.Popen(["/usr/bin/bash", "--norc", "--noprofile", "-c", x], cwd=work, env=env, stdin=subprocess.DEVNULL, stdout=subprocess.DEVNULL, stderr=subprocess.PIPE, start_new_session=True)
                try:
                    proc.communicate(timeout=5)
                except subprocess.TimeoutExpired:
                    pass
                finally:
                    try:
                        os.killpg(proc.pid, signal.SIGKILL)
                    except (ProcessLookupError, PermissionError):
                        pass
                after = snapshot(jail.root)
                changed = [p for p in after if before.get(p) != after[p] and not p.startswith(jail.state) and p != jail.log]
                bad = []
                for p in changed:
                    real = os.path.realpath(p)
                    # a relative rule pattern means "relative to the directory the shell is in": after a leading literal
                    # `cd sub` bash writes from <work>/sub
                    m = C.match_redirect(real, oracle_cfg, Path(os.path.join(work, "sub")) if cd == "first-literal" else Path(os.path.join(work, "okdir")) if cd == "okdir-literal" else Path(work))
                    if m is None or m.decision != "allow":
                        bad.append(os.path.relpath(real, work))
                out.append(("ran", x, cfg_text.replace(work, "<work>"), cd, [os.path.relpath(p, work) for p in changed], bad, None if layers is None else [t.replace(work, "<work>") for t in layers]))
            return out

        with ThreadPoolExecutor(workers) as ex:
            results = [x for part in ex.map(lambda a: run_many(*a), [(j, i) for i, j in enumerate(jails)]) for x in part]
    finally:
        for j in jails:
            j.cleanup()
    distinct = set()
    for res in results:
        stats["evaluations"] += 1
        if res[0] == "skip":
            stats["verdict:" + res[1]] += 1
            continue
        _, x, cfg_text, cd, changed, bad, layers = res
        stats["layered_configs"] += layers is not None
        stats["verdict:allow"] += 1
        stats["bash_runs"] += 1
        distinct.add(x)
        if changed:
            stats["runs_that_wrote"] += 1
        if bad:
            vios.append({"input": {"command": x, "config": cfg_text, "cwd": "<work>", "layers": layers}, "observed": {"verdict": "allow", "files_changed": changed, "not_granted": bad}, "required": "an approved command modifies only files granted by an allow-redirect rule not overridden later" + (" (the configuration is loaded in layers: user file, project file, $DIPPY_CONFIG)" if layers else ""), "oracle": "file-tree-diff", "cd_position": cd})
        elif changed and len(samples) < 3:
            samples.append({"command": x, "config": cfg_text, "files_changed": changed})
    return {"violations": vios[:40], "evaluations": stats["evaluations"], "distinct_nontrivial": len(distinct), "stats": dict(stats), "samples": samples, "oracle": "approved commands run by real bash + real text tools; changed files vs match_redirect(realpath)"}


def matches_finding(entry, v) -> bool:
    if entry.get("id") == "F02b":
        return v.get("cd_position") in entry["match"]["cd_position"]
    return False


def finding_still_fails(ctx, entry) -> bool:
    if entry.get("id") in ("F02b", "F02e"):
        from dippy.core import config as C
        from dippy.core.analyzer import analyze

        w = entry["witness"]
        d = analyze(w["command"], C.parse_config(w["config"]), Path(w["cwd"]))
        return d.action == "allow"
    return False


def replay(payload) -> int:
    from dippy.core import config as C
    from dippy.core.analyzer import analyze

    inp = payload["input"]
    with Jail(["ls", "git", "true"], real=["tee", "sort", "sed", "awk", "iconv", "cat", "touch"]) as j:
        j.reset()
        work = j.work
        if inp.get("layers"):
            cfg = merge_layers(C, [t.replace("<work>", work) for t in inp["layers"]])
            print("configuration loaded in layers:", inp["layers"])
        else:
            cfg = C.parse_config(inp["config"].replace("<work>", work))
        d = analyze(inp["command"], cfg, Path(work))
        print("verdict now:", d.action, "|", d.reason)
    print("recorded:", payload.get("observed"), "\nrequired:", payload.get("required"))
    return 1 if d.action == "allow" else 0
