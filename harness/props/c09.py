"""C09 — path rules follow the file, not its spelling."""
from __future__ import annotations

import collections
import os
import shutil
import subprocess
import tempfile
from pathlib import Path

import corr_config as CC
from common import rng

ID = "C09"
PROP_FILES = ["C09"]
RULE = (
    "correspondence: _classify_token/_expand_token/_normalize_path/_normalize_redirect_pattern/_normalize_pattern with every Path.resolve answer recorded, "
    "_glob_match on ** patterns, match_redirect on generated (rule set, cwd, spelling). search: in a real scratch tree (with and without symlinks) a canonical file is respelled "
    "(./, x/../, //, /./, trailing /, ~-relative, cwd-relative with ../, absolute with detours); all spellings with the same realpath must get the same match_redirect result and the same "
    "analyze('echo x > SPELLING') verdict; a target granted by 'allow-redirect D/**' must have its realpath under D; * and ? of ** patterns must not cross '/'; path arguments of command rules likewise."
)
TRUSTED = ["T1 correspondence harness (corr_config.py)", "CPython re modelled by hand for the regex _glob_to_regex builds (Model/Glob.lean); bracket classes containing a backslash are outside the model"]
ASSUMES = ["the lexical theorems are about the symlink-free resolution lexResolve; with symlinks the file system is the oracle PathEnv.resolve and spelling_invariant/confined are stated relative to it", "$VAR, ~user and URL tokens have no statically known denotation and are matched as written"]


def correspondence(ctx):
    m = ctx.model
    k = 2 if ctx.broken else 1
    return [
        CC.corr_paths(m, rng("c09-paths"), ctx.scale(500, 15000) * k),
        CC.corr_globmatch(m, rng("c09-glob"), ctx.scale(4000, 150000) * k),
        CC.corr_match_redirect(m, rng("c09-mr"), ctx.scale(400, 12000) * k),
    ]


RANKQ = {"allow": 0, "ask": 1, "deny": 2}


# detour directories (DIR/..): some are spelled with the characters patterns are made of
DETOURS = ["zz", "zz", "**", "x**y", "*", "a.b", "[x]"]


def respell(r, canonical: str, cwd: str, home: str) -> str:
    """a different spelling of the absolute path `canonical`"""
    k = r.random()
    s = canonical
    if k < 0.25 and (canonical == cwd or canonical.startswith(cwd + "/")):
        s = os.path.relpath(canonical, cwd)
        if r.chance(0.4):
            s = "./" + s
    elif k < 0.45:
        s = os.path.relpath(canonical, cwd)  # with ../ as needed
    elif k < 0.6 and (canonical.startswith(home + "/")):
        s = "~/" + os.path.relpath(canonical, home)
    if os.path.isabs(s) and r.chance(0.15):
        # an absolute detour through a directory that exists on every system (some of them are symlinks)
        pre, ups = r.pick([("/dev/fd", 3), ("/proc/self/fd", 3), ("/dev", 1), ("/proc/self", 2), ("/usr/lib", 2), ("/dev/pts", 2), ("/tmp", 1), ("/dev/shm", 2)])
        s = pre + "/.." * ups + s
    # lexical noise
    for _ in range(r.randint(0, 3)):
        parts = s.split("/")
        i = r.randrange(len(parts))
        j = r.random()
        if j < 0.3:
            parts.insert(i + (1 if parts[0] in ("", "~") and i == 0 else 0), ".") if i > 0 or parts[0] not in ("", "~") else parts.insert(1, ".")
        elif j < 0.6:
            det = r.pick(DETOURS)
            if i > 0 or parts[0] not in ("", "~"):
                parts[i:i] = [det, ".."]
            else:
                parts[1:1] = [det, ".."]
        elif j < 0.8 and i > 0:
            parts[i:i] = [""]
        s = "/".join(parts)
    if r.chance(0.15) and not s.endswith("/"):
        s += "/"
    return s


def search(ctx):
    from dippy.core import config as C
    from dippy.core.analyzer import analyze

    r = rng("c09-search")
    n = ctx.scale(300, 10000) * (4 if ctx.broken else 1)
    stats = collections.Counter()
    vios = []
    samples = []
    root = os.path.realpath(tempfile.mkdtemp(prefix="dippy-verif-c09-"))
    saved_home = os.environ.get("HOME")
    try:
        home = os.path.join(root, "home")
        work = os.path.join(root, "work")
        for d in ("home/out", "home/zz", "work/ok/deep/er", "work/other", "work/zz", "work/ok/zz", "work/sub/zz", "work/ok/deep/zz", "zz", "home/out/zz"):
            os.makedirs(os.path.join(root, d), exist_ok=True)
        for base in ("", "home", "home/out", "work", "work/ok", "work/sub", "work/ok/deep", "work/ok/deep/er", "work/other"):
            for det in set(DETOURS):
                os.makedirs(os.path.join(root, base, det), exist_ok=True)
        os.symlink(os.path.join(work, "other"), os.path.join(work, "ok", "escape"))  # a symlink leading out of ok/
        os.symlink(os.path.join(work, "ok"), os.path.join(work, "oklink"))
        os.environ["HOME"] = home
        canon_files = [work + "/ok/a", work + "/ok/deep/b", work + "/ok/deep/er/c", work + "/other/x", home + "/out/y", work + "/sub/z", work + "/ok", work + "/okx"]
        patterns = [work + "/ok/**", work + "/ok/*", work + "/ok/a", "~/out/**", "ok/**", "./ok/**", work + "/ok/deep/**", work + "/**/c", work + "/o?/**", work + "/other/**", "**/z", work + "/ok/*/**"]
        for _ in range(n):
            lines = []
            for _ in range(r.randint(1, 4)):
                d = r.pick(["allow-redirect", "allow-redirect", "ask-redirect", "deny-redirect"])
                lines.append(d + " " + r.pick(patterns))
            text = "\n".join(lines) + "\n"
            cfg = C.parse_config(text)
            cwd = r.pick([work, work + "/ok", work + "/sub", home])
            canonical = r.pick(canon_files)
            spellings = [canonical] + [respell(r, canonical, cwd, home) for _ in range(3)]
            if r.chance(0.2):
                # through symlinks: same file, different name
                if canonical.startswith(work + "/ok/"):
                    spellings.append(work + "/oklink/" + canonical[len(work + "/ok/"):])
            results = []
            for s in spellings:
                real = os.path.realpath(os.path.expanduser(s) if s.startswith("~") else os.path.join(cwd, s))
                m = C.match_redirect(s, cfg, Path(cwd))
                # a spelling with pattern characters is given to the shell in double quotes (bash would expand it otherwise; ~ is
                # left outside the quotes)
                sw_ = s if not any(ch in s for ch in "*?[") else ('~/"' + s[2:] + '"' if s.startswith("~/") else '"' + s + '"')
                d = analyze("echo x > " + sw_, cfg, Path(cwd))
                stats["evaluations"] += 2
                stats["glob_char_spellings"] += sw_ != s
                results.append((s, real, None if m is None else (m.decision, m.pattern), d.action))
            base_real = results[0][1]
            for s, real, m, act in results:
                if real != base_real:
                    stats["respell_changed_file"] += 1
                    continue
                stats["same_file_spellings"] += 1
                if m != results[0][2] or act != results[0][3]:
                    vios.append({"input": {"config": text, "cwd": cwd.replace(root, "<root>"), "spellings": [results[0][0].replace(root, "<root>"), s.replace(root, "<root>")]}, "observed": {"canonical": [results[0][2], results[0][3]], "respelled": [m, act]}, "required": "same file, same redirect-rule verdict", "oracle": "spelling-invariant"})
                # confinement
                if m is not None and m[0] == "allow" and m[1].endswith("/**") and not any(ch in m[1][:-3] for ch in "*?["):
                    D = m[1][:-3]
                    Dreal = os.path.realpath(os.path.expanduser(D) if D.startswith("~") else os.path.join(cwd, D))
                    stats["confinement_checks"] += 1
                    if not (real + "/").startswith(Dreal + "/"):
                        vios.append({"input": {"config": text, "cwd": cwd.replace(root, "<root>"), "target": s.replace(root, "<root>")}, "observed": {"granted_by": m[1].replace(root, "<root>"), "file_written": real.replace(root, "<root>")}, "required": "an allow-redirect for a directory cannot be used to write outside it", "oracle": "confined"})
            # shell quoting inside the word (bash removes it before it opens the file): the quoted spelling of the same file
            # must never be judged more leniently than the canonical one; that it is *asked* about where the canonical
            # spelling is denied (or allowed) is the open finding F09d
            base_act = results[0][3]
            for s0 in [x[0] for x in results if x[1] == base_real][:2]:
                parts = s0.split("/")
                idxs = [i for i, p_ in enumerate(parts) if p_ and p_ != "~"]
                if not idxs:
                    continue
                i = r.pick(idxs)
                qkind = r.pick(["dq", "sq", "bs", "empty"])
                seg = parts[i]
                parts[i] = {"dq": '"' + seg + '"', "sq": "'" + seg + "'", "bs": "\\" + seg, "empty": seg + '""'}[qkind]
                sq_ = "/".join(parts)
                try:
                    back = subprocess.run(["bash", "-c", "printf %s " + sq_], capture_output=True, text=True, timeout=5, env={"HOME": home, "PATH": "/usr/bin:/bin"}).stdout
                except Exception:  # noqa: BLE001
                    continue
                if back != (os.path.expanduser(s0) if s0.startswith("~") else s0):
                    continue  # the quoting changed the word (e.g. a quoted tilde): not the same file
                d = analyze("echo x > " + sq_, cfg, Path(cwd))
                stats["evaluations"] += 1
                stats["quoted_spellings"] += 1
                if RANKQ[d.action] < RANKQ[base_act]:
                    vios.append({"input": {"config": text, "cwd": cwd.replace(root, "<root>"), "spellings": [results[0][0].replace(root, "<root>"), sq_.replace(root, "<root>")]}, "observed": {"canonical": base_act, "quoted": d.action}, "required": "same file (bash removes the quotes): never judged more leniently than the canonical spelling", "oracle": "spelling-invariant(shell quoting)", "quoted_weaker": base_act == "deny" and d.action == "ask"})
            # … in particular a detour through a *granted* directory whose `..` is quoted: G/".."/rest is parent(G)/rest
            for rule in cfg.redirect_rules:
                if rule.decision != "allow" or not rule.pattern.endswith("/**") or any(ch in rule.pattern[:-3] for ch in "*?[~"):
                    continue
                G = rule.pattern[:-3]
                if not os.path.isabs(G) or not os.path.isdir(G) or os.path.realpath(G) != G:
                    continue
                rest = os.path.relpath(base_real, os.path.dirname(G))
                if rest.startswith(".."):
                    continue
                sq_ = G + "/" + r.pick(['".."', "'..'", "\\.\\.", '..""', '"."".."']) .replace('"."".."', '".."') + "/" + rest
                d = analyze("echo x > " + sq_, cfg, Path(cwd))
                stats["evaluations"] += 1
                stats["quoted_detours"] += 1
                if RANKQ[d.action] < RANKQ[base_act]:
                    vios.append({"input": {"config": text, "cwd": cwd.replace(root, "<root>"), "spellings": [results[0][0].replace(root, "<root>"), sq_.replace(root, "<root>")]}, "observed": {"canonical": base_act, "quoted": d.action}, "required": "same file (bash removes the quotes): never judged more leniently than the canonical spelling", "oracle": "spelling-invariant(shell quoting)", "quoted_weaker": base_act == "deny" and d.action == "ask"})
            # a symlink that leaves the granted directory
            if r.chance(0.15):
                s = work + "/ok/escape/x"
                m = C.match_redirect(s, C.parse_config("allow-redirect " + work + "/ok/**\n"), Path(cwd))
                stats["symlink_escape_checks"] += 1
                if m is not None:
                    vios.append({"input": {"config": "allow-redirect <root>/work/ok/**", "target": "<root>/work/ok/escape/x (escape -> ../other)"}, "observed": {"match": m.decision}, "required": "the file written is outside the granted directory", "oracle": "confined-symlink"})
            if len(samples) < 3:
                samples.append({"config": text.replace(root, "<root>"), "cwd": cwd.replace(root, "<root>"), "spellings": [x[0].replace(root, "<root>") for x in results], "verdicts": [x[3] for x in results]})
            # command rules with path arguments
            f = r.pick(canon_files)
            ctext = r.pick(["deny", "allow"]) + " cat " + r.pick([f, os.path.relpath(f, cwd), "./" + os.path.relpath(f, cwd)]) + "\n"
            ccfg = C.parse_config(ctext)
            outs = []
            for s in [f, "./" + os.path.relpath(f, cwd), respell(r, f, cwd, home)]:
                if s.endswith("/"):
                    continue
                real = os.path.realpath(os.path.expanduser(s) if s.startswith("~") else os.path.join(cwd, s))
                if real != f:
                    continue
                bare = "/" not in s and not s.startswith("~")
                outs.append((s, bare, analyze("cat " + s, ccfg, Path(cwd)).action))
                stats["evaluations"] += 1
            for s, bare, act in outs:
                if act != outs[0][2]:
                    # bare-word spellings are known finding F09b: at most two of them are reported
                    stats["bare_reports" if bare else "reports"] += 1
                    if bare and stats["bare_reports"] > 2:
                        continue
                    vios.append({"input": {"config": ctext.replace(root, "<root>"), "cwd": cwd.replace(root, "<root>"), "commands": ["cat " + outs[0][0].replace(root, "<root>"), "cat " + s.replace(root, "<root>")]}, "observed": [outs[0][2], act], "required": "same file, same command-rule verdict for path arguments", "oracle": "command-arg-spelling", "bare_word": bare})
            if stats["reports"] >= 5:
                break
    finally:
        if saved_home is not None:
            os.environ["HOME"] = saved_home
        shutil.rmtree(root, ignore_errors=True)
    vios.sort(key=lambda v: bool(v.get("bare_word")))
    return {"violations": vios[:7], "evaluations": stats["evaluations"], "distinct_nontrivial": stats["same_file_spellings"], "stats": dict(stats), "samples": samples, "oracle": "realpath-equal spellings => equal match_redirect / analyze; allow D/** => realpath under D"}


def matches_finding(entry, v) -> bool:
    if entry.get("id") == "F09d":
        return v.get("oracle") == "spelling-invariant(shell quoting)" and bool(v.get("quoted_weaker"))
    if entry.get("id") == "F09b":
        return v.get("oracle") == "command-arg-spelling" and bool(v.get("bare_word"))
    return False


def finding_still_fails(ctx, entry) -> bool:
    if entry.get("id") == "F09d":
        from dippy.core import config as C
        from dippy.core.analyzer import analyze

        w = entry["witness"]
        cfg = C.parse_config(w["config"])
        return analyze(w["commands"][0], cfg, Path("/tmp/probe")).action == "deny" and analyze(w["commands"][1], cfg, Path("/tmp/probe")).action == "ask"
    if entry.get("id") == "F09b":
        from dippy.core import config as C
        from dippy.core.analyzer import analyze

        w = entry["witness"]
        a = analyze(w["command"], C.parse_config(w["config"]), Path(w["cwd"]))
        return a.action != w["required"]
    return False


def replay(payload) -> int:
    print(payload.get("input"))
    print("observed:", payload.get("observed"), "required:", payload.get("required"))
    print("(scratch-tree replays are rebuilt by re-running the check with the same VERIF_SEED)")
    return 1
