"""C11 — config text: line-local, never fatal, round-trips; broken config never allows."""
from __future__ import annotations

import collections
import os
from pathlib import Path

import corr_config as CC
import hookrun as H
from common import has_surrogate, rng

ID = "C11"
PROP_FILES = ["C11"]
RULE = (
    "correspondence: parse_config on generated texts (directive grammar, mutated lines, arbitrary Unicode/control characters, all line-boundary characters), "
    "_extract_message/_unescape/_strip_exact_anchor/line splitting individually; compared on the whole observable Config. "
    "search: on the implementation: no exception escapes parse_config; parse(a+bad+b) == parse(a+b); per-line parsing merged == whole parse; "
    "render(rule) parses back to the rule for messages over all characters but newline; the real hook under an unreadable / undecodable / looping config layer never answers allow."
)
TRUSTED = ["T1 correspondence harness (corr_config.py)", "str.strip/split/isspace modelled from generated Unicode tables; str.lower modelled for ASCII"]
ASSUMES = ["Path.expanduser is the oracle ParseEnv.userHome (pwd database)", "files are read with universal newlines (the parser splits on \\n only)"]


def correspondence(ctx):
    m = ctx.model
    k = 2 if ctx.broken else 1
    return [
        CC.corr_parse(m, rng("c11-parse"), ctx.scale(2500, 80000) * k),
        CC.corr_pieces(m, rng("c11-pieces"), ctx.scale(1500, 40000) * k),
        corr_writer(m, rng("c11-writer"), ctx.scale(1500, 40000) * k),
    ]


def observable(cfg):
    return CC.cfg_to_json(cfg)


def escape(m: str) -> str:
    return m.replace("\\", "\\\\").replace('"', '\\"')


MSG_CHARS = ['a', 'b', ' ', '"', '\\', '#', '|', "'", '\t', '\x0b', '\x0c', '\x1c', '\x1d', '\x1e', '\x85', ' ', ' ', '\r', 'é', '　', '\x00', '~', '*', '$', '﻿', '😀']


TOK_CHARS = ['a', 'b', 'z', '*', '?', '[', ']', '/', '.', '-', '~', '"', "'", '\\', '|', '#', '$', ':', 'é', '\x00', '😀', '=', '{', '}']
SPACES = [' ', '\t', '\x0b', '\x0c', '\x1c', '\x85', '\u2003', '\u3000']
DIRECTIVES = ["ask", "deny", "ask-redirect", "deny-redirect", "ask-mcp", "deny-mcp", "after", "after-mcp", "allow", "allow-redirect", "allow-mcp"]


def gen_rule(r):
    """(directive, tokens, exact, message): mostly well-formed, sometimes not (empty token, blank inside a token, trailing | or ")"""
    d = r.pick(DIRECTIVES)
    toks = []
    for _ in range(r.randint(1, 3)):
        if r.chance(0.5):
            toks.append(r.pick(["git", "push", "rm", "-rf", "*", "x?", "[ab]c", "/tmp/x", "mcp__a__*", "'q'", 'a"b', "é", "~", "~/bin/t", "~root/x", "~/a://b", "**", "a|b", '"q"', "x|", 'y"', "#c", "|"]))
        else:
            toks.append("".join(r.pick(TOK_CHARS) for _ in range(r.randint(1, 5))))
    k = r.random()
    if k < 0.04:
        toks[r.randrange(len(toks))] = ""
    elif k < 0.08:
        i = r.randrange(len(toks))
        toks[i] = toks[i] + r.pick(SPACES) + "x"
    elif k < 0.1:
        toks = []
    exact = d in ("ask", "deny", "allow") and r.chance(0.3)
    msg = None if d.startswith("allow") or r.chance(0.2) else "".join(r.pick(MSG_CHARS) for _ in range(r.randint(0, 8)))
    return d, toks, exact, msg


def py_is_space(c):
    return c.isspace()


def py_wf(toks, exact, msg):
    """RT.WfPat, written independently"""
    if not toks or any((not t) or any(py_is_space(c) for c in t) for t in toks):
        return False
    last = " ".join(toks)[-1]
    if not exact and last == "|":
        return False
    if not exact and msg is None and last == '"':
        return False
    return True


def py_render(d, toks, exact, msg):
    return d + " " + " ".join(toks) + (" |" if exact else "") + ("" if msg is None else ' "' + escape(msg) + '"')


def expected_pattern(d, toks, home):
    """what the parser stores: tilde tokens expanded for command and redirect rules, text as written otherwise"""
    if d in ("after", "after-mcp", "allow-mcp", "ask-mcp", "deny-mcp"):
        return " ".join(toks)
    return " ".join((home + t[1:]) if ((t == "~" or t.startswith("~/")) and "://" not in t) else t for t in toks)


def corr_writer(model, r, n):
    """the writer of the round-trip theorems (RT.renderLine), its well-formedness predicate (RT.wfPatB) and the model's
    reading of the written line, against the harness writer, an independent predicate and the real parse_config"""
    from dippy.core.config import parse_config

    acc = CC.Acc("rule writer (RT.renderLine / RT.wfPatB) and parse_config on written lines")
    penv = CC.penv_json()
    items = []
    for _ in range(n):
        d, toks, exact, msg = gen_rule(r)
        if has_surrogate("".join(toks) + (msg or "")):
            continue
        items.append((d, toks, exact, msg))
    reps = model.batch([{"op": "renderline", "d": d, "tokens": toks, "exact": exact, "msg": msg, "penv": penv} for d, toks, exact, msg in items])
    for (d, toks, exact, msg), rep in zip(items, reps):
        line = py_render(d, toks, exact, msg)
        wf = py_wf(toks, exact, msg)
        try:
            parsed = CC.cfg_to_json(parse_config(line))
        except Exception as e:  # noqa: BLE001
            parsed = {"raised": type(e).__name__}
        acc.case([d, toks, exact, msg], {"line": line, "wf": wf, "parsed": parsed}, rep, nontrivial=wf, tag=("wf:" if wf else "illformed:") + d, sample={"line": line[:100], "wf": wf})
    return acc.result()


def search(ctx):
    from dippy.core import config as C

    r = rng("c11-search")
    n = ctx.scale(1500, 60000) * (4 if ctx.broken else 1)
    stats = collections.Counter()
    vios = []
    samples = []
    seen = set()

    def P(text):
        stats["evaluations"] += 1
        return C.parse_config(text)

    for i in range(n):
        # (d) totality + (a) bad-line identity + (b) line independence
        a = CC.gen_config_text(r, nlines=r.randint(0, 4), breaks=["\n"])
        b = CC.gen_config_text(r, nlines=r.randint(0, 4), breaks=["\n"])
        bad = CC.gen_other_line(r)
        for t in (a, b, bad):
            if t not in seen:
                seen.add(t)
                stats["distinct"] += 1
        try:
            # a malformed line is one the parser itself reports as skipped (a valid `set default ask` also parses to
            # the empty observable, but it is a setting, not a malformed line)
            import logging

            class _Cap(logging.Handler):
                def __init__(self):
                    super().__init__()
                    self.n = 0

                def emit(self, record):
                    if "skipped" in record.getMessage():
                        self.n += 1

            cap = _Cap()
            logging.getLogger().addHandler(cap)
            try:
                alone = observable(P(bad))
            finally:
                logging.getLogger().removeHandler(cap)
            empty = observable(C.Config())
            inert_line = cap.n > 0 or not bad.strip() or bad.strip().startswith("#")
            if "\n" not in bad and alone == empty and inert_line:
                stats["bad_line_checks"] += 1
                x = observable(P(a + ("" if a.endswith("\n") or not a else "\n") + bad + "\n" + b))
                y = observable(P(a + ("" if a.endswith("\n") or not a else "\n") + b))
                if x != y:
                    vios.append({"input": {"config": a + "\n" + bad + "\n" + b}, "observed": {"with_bad_line": x, "without": y}, "required": "a malformed line is skipped with the rest kept", "oracle": "bad-line-identity"})
            whole = P(a + ("" if a.endswith("\n") or not a else "\n") + b)
            acc = C.Config()
            for line in (a + ("" if a.endswith("\n") or not a else "\n") + b).split("\n"):
                acc = C._merge_configs(acc, P(line))
            x, y = observable(whole), observable(acc)
            x.pop("default"), y.pop("default")
            stats["line_local_checks"] += 1
            if x != y:
                vios.append({"input": {"config": a + "\n" + b}, "observed": {"whole": x, "per_line_merged": y}, "required": "each line is interpreted independently of its neighbours", "oracle": "line-local"})
        except Exception as e:  # noqa: BLE001
            vios.append({"input": {"config": a + "\n" + bad + "\n" + b}, "observed": {"exception": repr(e)}, "required": "parsing config text never fails as a whole", "oracle": "total"})
        # (c) round trip: every well-formed rule (RT.WfPat, evaluated by the independent py_wf) is read back as written
        d, toks, exact, msg = gen_rule(r)
        if not py_wf(toks, exact, msg) or has_surrogate("".join(toks) + (msg or "")):
            stats["roundtrip_illformed_skipped"] += 1
            continue
        pat = expected_pattern(d, toks, str(Path.home()))
        line = py_render(d, toks, exact, msg)
        stats["roundtrip_checks"] += 1
        try:
            cfg = P(line)
            fam = {"ask": cfg.rules, "deny": cfg.rules, "allow": cfg.rules, "ask-redirect": cfg.redirect_rules, "deny-redirect": cfg.redirect_rules, "allow-redirect": cfg.redirect_rules, "ask-mcp": cfg.mcp_rules, "deny-mcp": cfg.mcp_rules, "allow-mcp": cfg.mcp_rules, "after": cfg.after_rules, "after-mcp": cfg.after_mcp_rules}[d]
            ok = len(fam) == 1 and fam[0].pattern == pat and fam[0].message == msg and bool(fam[0].exact) == exact and fam[0].decision == d.split("-")[0]
            total = sum(len(x) for x in (cfg.rules, cfg.redirect_rules, cfg.mcp_rules, cfg.after_rules, cfg.after_mcp_rules))
            if not ok or total != 1:
                vios.append({"input": {"config": line}, "observed": {"parsed": observable(cfg)}, "required": f"write-then-parse round trip: one {d} rule, pattern {pat!r}, exact={exact}, message {msg!r}", "oracle": "roundtrip"})
            elif len(samples) < 3:
                samples.append({"line": line, "pattern": pat, "message": msg, "exact": exact})
        except Exception as e:  # noqa: BLE001
            vios.append({"input": {"config": line}, "observed": {"exception": repr(e)}, "required": "parsing never fails", "oracle": "total"})
        if len(vios) >= 5:
            break

    # (e) a config layer that cannot be read or decoded never leads to allow
    hook_cases = 0
    with H.Scratch() as s:
        s.user_config("allow *\n")
        bad_utf8 = s.write("bad_utf8.conf", b"allow *\n\xff\xfe\n", mode="wb")
        loop = os.path.join(s.root, "loop.conf")
        os.symlink(loop, loop)
        adir = os.path.join(s.root, "adir")
        os.makedirs(adir)
        layers = {"EIO (/proc/self/mem)": "/proc/self/mem", "invalid UTF-8": bad_utf8, "symlink loop": loop, "NUL in path": s.root + "/a\x00b" if False else None, "unknown user": "~nosuchuser/conf"}
        jobs, labels = [], []
        for label, path in layers.items():
            if path is None:
                continue
            for cmd in ("ls", "echo hi", "rm -rf /"):
                jobs.append({"stdin": H.claude_input(cmd, cwd=s.proj), "home": s.home, "env_extra": {"DIPPY_CONFIG": path}})
                labels.append((label, cmd))
        # a project .dippy that is unreadable in the same ways
        res = H.run_many(jobs)
        for (label, cmd), (rc, out, err) in zip(labels, res):
            hook_cases += 1
            dec, reason = H.decision_of(out)
            # a symlink loop / unknown user is not a file at all: the layer counts as absent (C10);
            # it must still not crash the hook
            must_not_allow = label in ("EIO (/proc/self/mem)", "invalid UTF-8")
            if rc != 0 or (dec == "allow" and must_not_allow) or b"Traceback" in err:
                vios.append({"input": {"command": cmd, "env": {"DIPPY_CONFIG": layers[label]}, "user_config": "allow *\n"}, "observed": {"exit": rc, "stdout": out.decode("utf-8", "replace"), "stderr_tail": err.decode("utf-8", "replace")[-300:]}, "required": f"config layer fault ({label}): never allow, exit 0, no traceback", "oracle": "broken-config-never-allows"})
    stats["hook_fault_cases"] = hook_cases
    return {"violations": vios[:5], "evaluations": stats["evaluations"] + hook_cases, "distinct_nontrivial": stats["distinct"], "stats": dict(stats), "samples": samples, "oracle": "totality / bad-line identity / line locality / round trip on parse_config; hook subprocess under config-layer faults"}


def matches_finding(entry, v) -> bool:
    return False


def finding_still_fails(ctx, entry) -> bool:
    return False


def replay(payload) -> int:
    from dippy.core import config as C

    inp = payload["input"]
    try:
        cfg = C.parse_config(inp["config"])
        print("parsed:", observable(cfg))
    except Exception as e:  # noqa: BLE001
        print("exception:", repr(e))
    print("required:", payload.get("required"))
    return 1
