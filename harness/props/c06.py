"""C06 — hook protocol is total and fails closed."""
from __future__ import annotations

import collections
import json
import os
import subprocess
import time

import corr_hook as CH
import hookrun as H
from common import REPO, rng

ID = "C06"
PROP_FILES = ["C06"]
RULE = (
    "correspondence: the real bin/dippy-hook as a subprocess (scratch HOME, user + project config) on generated stdin – JSON values for the three host shapes with every field drawn from "
    "{correct type, every other JSON type, missing}, non-dict top levels, raw byte strings (truncated JSON, invalid UTF-8, BOM, NUL, 100000-deep arrays, 300 kB commands), flag and DIPPY_* combinations – "
    "against Model/Hook with config loading / analysis / tokenisation answered by the real functions in-process; compared on parsed stdout, exit status and traceback. "
    "search: the same subprocess checked directly against the property (exit 0, one JSON object for pre-execution events, no traceback, allow only if the in-process analysis says allow / an MCP rule allows / bypass), "
    "plus exceptions of 14 classes injected into analyze, load_config, log_decision, the parser and the handlers from outside the source."
)
TRUSTED = ["T0 shape facts about main() (one try, handlers, nothing outside it)", "T1 subprocess correspondence (corr_hook.py) with in-process oracles for load_config/analyze/tokenize", "CPython's json module decides what is JSON"]
ASSUMES = [
    "stack exhaustion surfaces as RecursionError (checked up to the sizes generated); beyond that the OS may kill the process",
    "print to a closed stdout is out of scope",
    "BaseException (KeyboardInterrupt, SystemExit) is not an internal failure",
]


def correspondence(ctx):
    n = ctx.scale(500, 12000) * (2 if ctx.broken else 1)
    return [CH.corr_hook(ctx.model, rng("c06-hook"), n)]


EXCS = ["ValueError", "TypeError", "KeyError", "RuntimeError", "OSError", "AttributeError", "RecursionError", "MemoryError", "UnicodeError", "AssertionError", "IndexError", "ZeroDivisionError", "NotImplementedError", "PermissionError"]


def search(ctx):
    from dippy.core import config as C
    from dippy.core.analyzer import analyze

    r = rng("c06-search")
    stats = collections.Counter()
    vios = []
    samples = []
    w = CH.World()
    wbad = CH.World(project_config=CH.UNREADABLE)
    try:
        # a project whose configuration does not load: every pre-execution event is answered, never allowed
        nb = ctx.scale(120, 3000) * (3 if ctx.broken else 1)
        bjobs, bmetas = [], []
        for _ in range(nb):
            value = CH.gen_value(r, wbad.proj)
            stdin = json.dumps(value).encode()
            args = list(r.pick(CH.FLAG_SETS))
            bjobs.append({"stdin": stdin, "home": wbad.s.home, "args": args, "cwd": wbad.proj})
            bmetas.append((value, stdin, args))
        for (value, stdin, args), (rc, out, err) in zip(bmetas, H.run_many(bjobs)):
            stats["evaluations"] += 1
            stats["config_error_runs"] += 1
            got = CH.parse_stdout(out)
            post = isinstance(value, dict) and value.get("hook_event_name") == "PostToolUse"
            dec = H.decision_of(out)[0] if len(got) == 1 and "json" in got[0] else None
            stats["config_error_decision:" + str(dec)] += 1
            bad = None
            if rc != 0:
                bad = "exit status %d" % rc
            elif b"Traceback" in err:
                bad = "traceback on stderr"
            elif not post and not (len(got) == 1 and "json" in got[0] and isinstance(got[0]["json"], dict)):
                bad = "stdout is not exactly one JSON object (configuration that does not load)"
            elif dec in ("allow", "deny"):
                bad = "a configuration that does not load produced " + dec
            if bad:
                vios.append({"input": {"stdin": stdin[:20000].decode("utf-8", "replace"), "stdin_len": len(stdin), "argv": args, "user_config": CH.UNREADABLE, "project_config": CH.UNREADABLE}, "observed": {"exit": rc, "stdout": out[:500].decode("utf-8", "replace"), "stderr_tail": err[-300:].decode("utf-8", "replace")}, "required": bad, "oracle": "hook-total"})
        n = ctx.scale(350, 10000) * (3 if ctx.broken else 1)
        jobs, metas = [], []
        for _ in range(n):
            if r.chance(0.8):
                value = CH.gen_value(r, w.proj)
                stdin = json.dumps(value).encode()
            else:
                value = None
                stdin = CH.gen_raw(r)
            args = list(r.pick(CH.FLAG_SETS))
            jobs.append({"stdin": stdin, "home": w.s.home, "args": args, "cwd": w.proj})
            metas.append((value, stdin, args))
        for (value, stdin, args), (rc, out, err) in zip(metas, H.run_many(jobs)):
            stats["evaluations"] += 1
            got = CH.parse_stdout(out)
            if value is None:
                try:
                    value = json.loads(stdin.decode("utf-8", "surrogateescape"))
                except Exception:  # noqa: BLE001
                    value = None
            post = isinstance(value, dict) and value.get("hook_event_name") == "PostToolUse"
            bad = None
            if rc != 0:
                bad = "exit status %d" % rc
            elif b"Traceback" in err:
                bad = "traceback on stderr"
            elif not post and not (len(got) == 1 and "json" in got[0] and isinstance(got[0]["json"], dict)):
                bad = "stdout is not exactly one JSON object"
            elif post and any("json" in g and H.decision_of(json.dumps(g["json"]).encode())[0] not in (None,) for g in got):
                bad = "a PostToolUse event produced a decision"
            dec = H.decision_of(out)[0] if len(got) == 1 and "json" in got[0] else None
            stats["decision:" + str(dec)] += 1
            if bad is None and dec == "allow":
                # allow only if analysis of a well-formed shell command (or an MCP rule) said allow, or bypass
                ok = False
                if isinstance(value, dict):
                    if value.get("permission_mode") in ("bypassPermissions", "dontAsk"):
                        ok = True
                    tn = value.get("tool_name")
                    ti = value.get("tool_input") if isinstance(value.get("tool_input"), dict) else {}
                    cwd = value.get("cwd") or ti.get("cwd") or w.proj
                    cwd = os.path.join(w.proj, cwd) if isinstance(cwd, str) else w.proj  # the hook runs with cwd = proj
                    import corr_load as CL
                    lay = type("L", (), {})()
                    lay.home, lay.env_value = w.s.home, None
                    with CL.layout_env(lay):
                        try:
                            cfg = C.load_config(__import__("pathlib").Path(cwd).resolve())
                        except Exception:  # noqa: BLE001
                            cfg = None
                        if cfg is not None:
                            if isinstance(tn, str) and tn.startswith("mcp__"):
                                m = C.match_mcp(tn, cfg)
                                ok = ok or (m is not None and m.decision == "allow")
                            for cmd in (value.get("command"), ti.get("command")):
                                if isinstance(cmd, str):
                                    try:
                                        ok = ok or analyze(cmd, cfg, __import__("pathlib").Path(cwd).resolve()).action == "allow"
                                    except Exception:  # noqa: BLE001
                                        pass
                if not ok:
                    bad = "allow without an allowing analysis, MCP rule or bypass mode"
            if bad:
                vios.append({"input": {"stdin": stdin[:20000].decode("utf-8", "replace"), "stdin_len": len(stdin), "argv": args, "user_config": CH.USER_CONFIG, "project_config": CH.PROJECT_CONFIG}, "observed": {"exit": rc, "stdout": out[:500].decode("utf-8", "replace"), "stderr_tail": err[-300:].decode("utf-8", "replace")}, "required": bad, "oracle": "hook-total"})
            elif len(samples) < 3 and value is not None:
                samples.append({"stdin": value, "argv": args, "stdout": got})
        # every handler on odd option lists (a value-taking option as the last word, a value that starts with a dash, unknown
        # letters in a cluster, a flag given a value …): in-process first – anything that is not an ordinary return (SystemExit from
        # an option parser, output written by the handler) – then confirmed on the real hook
        import ast as _ast
        import contextlib
        import importlib
        import io
        import shlex

        import dippy.cli as CLI

        generic = ["-o", "--to", "-", "--", "''", "-cx", "--silent=yes", "-out.txt", "f", "'x y'", "=", "--=", "-h", "--help", "-f", "-t", "--output", "-o-", "--no-such-option", "-1", "+x", "é", "--from=", "-abcdefgh", "-o -out.txt"]
        suspects = []
        cfg0 = C.parse_config("")
        per = ctx.scale(25, 400) * (2 if ctx.broken else 1)
        for cmdname, modname in sorted(CLI.KNOWN_HANDLERS.items()):
            try:
                mod = importlib.import_module("dippy.cli." + modname)
                own = sorted({n.value for n in _ast.walk(_ast.parse(open(mod.__file__).read())) if isinstance(n, _ast.Constant) and isinstance(n.value, str) and n.value.startswith("-") and " " not in n.value and len(n.value) < 30})
            except Exception:  # noqa: BLE001
                own = []
            longs = [o for o in own if o.startswith("--") and len(o) > 4]
            abbrevs = sorted({o.split("=")[0][:k] for o in longs for k in range(3, len(o.split("=")[0]))} | {"--v", "--ve", "--ver", "--h", "--he", "--o", "--out", "--f", "--t"})
            # deterministic part: every option of the handler as the last word (a value-taking option without its value),
            # after a file argument, and every abbreviation of its long options; then random combinations
            fixed = [[o] for o in own] + [["f", o] for o in own] + [[a] for a in abbrevs] + [[a + "=x"] for a in abbrevs[:40]]
            for it in range(len(fixed) + per):
                if it < len(fixed):
                    words = fixed[it]
                else:
                    words = [r.pick(abbrevs) + r.pick(["", "", "=x"]) if r.chance(0.25) else r.pick(own) if own and r.chance(0.6) else r.pick(generic) for _ in range(r.randint(1, 4))]
                cmd = cmdname + " " + " ".join(shlex.quote(x) if not x.startswith("'") else x for x in words)
                if it >= len(fixed) and r.chance(0.2):
                    cmd = "cat f | " + cmd
                stats["handler_sweep"] += 1
                so, se = io.StringIO(), io.StringIO()
                what = None
                try:
                    with contextlib.redirect_stdout(so), contextlib.redirect_stderr(se):
                        analyze(cmd, cfg0, __import__("pathlib").Path(w.proj))
                except Exception:  # noqa: BLE001
                    what = None  # caught by main(): the subprocess runs above and the fault injection below cover that path
                except BaseException as e:  # noqa: BLE001
                    what = type(e).__name__
                if what is None and (so.getvalue() or se.getvalue()):
                    what = "output"
                if what and len(suspects) < 40:
                    suspects.append((cmd, what))
        stats["handler_sweep_suspects"] = len(suspects)
        sjobs = [{"stdin": H.claude_input(cmd, cwd=w.proj), "home": w.s.home, "args": [], "cwd": w.proj} for cmd, _ in suspects]
        for (cmd, what), (rc, out, err) in zip(suspects, H.run_many(sjobs) if sjobs else []):
            stats["evaluations"] += 1
            got = CH.parse_stdout(out)
            if rc != 0 or b"Traceback" in err or not (len(got) == 1 and "json" in got[0] and isinstance(got[0]["json"], dict)):
                vios.append({"input": {"stdin": H.claude_input(cmd, cwd=w.proj).decode(), "command": cmd, "argv": []}, "observed": {"exit": rc, "stdout": out[:300].decode("utf-8", "replace"), "stderr_tail": err[-300:].decode("utf-8", "replace"), "in_process": what}, "required": "exit 0 and exactly one JSON object on stdout, whatever the option list of the command", "oracle": "hook-total(handler sweep)"})
        # injected internal failures
        faults = []
        for site in ("analyze", "load", "logdecision", "parse", "handler"):
            for e in EXCS:
                faults.append(site + ":" + e)
        faults = faults if ctx.tier == "thorough" or ctx.broken else r.sample(faults, 24)
        inputs = [H.claude_input("git status", cwd=w.proj), H.claude_input("ls $(cat f) > /tmp/zz; rm x", cwd=w.proj), json.dumps({"command": "ls", "cwd": w.proj}).encode(), H.claude_input("git push", cwd=w.proj, event="PostToolUse"), H.claude_input("x", cwd=w.proj, tool="mcp__github__get_issue")]

        def run_fault(spec, stdin):
            env = {"HOME": w.s.home, "PATH": "/usr/bin:/bin", "LANG": "C.UTF-8"}
            p = subprocess.run([H.PY, os.path.join(os.path.dirname(os.path.abspath(CH.__file__)), "fault_main.py"), os.path.join(REPO, "src"), spec], input=stdin, capture_output=True, env=env, cwd=w.proj, timeout=60)
            return p.returncode, p.stdout, p.stderr

        from concurrent.futures import ThreadPoolExecutor

        fjobs = [(f, i) for f in faults for i in inputs]
        with ThreadPoolExecutor(16) as ex:
            fres = list(ex.map(lambda fi: run_fault(*fi), fjobs))
        for (spec, stdin), (rc, out, err) in zip(fjobs, fres):
            stats["evaluations"] += 1
            stats["fault_runs"] += 1
            got = CH.parse_stdout(out)
            dec = H.decision_of(out)[0] if len(got) == 1 and "json" in got[0] else None
            post = b"PostToolUse" in stdin
            bad = None
            if rc != 0:
                bad = "exit status %d" % rc
            elif b"Traceback" in err:
                bad = "traceback on stderr"
            elif not post and not (len(got) == 1 and "json" in got[0] and isinstance(got[0]["json"], dict)):
                bad = "stdout is not exactly one JSON object"
            if bad:
                vios.append({"input": {"stdin": stdin.decode(), "injected_fault": spec}, "observed": {"exit": rc, "stdout": out[:300].decode("utf-8", "replace"), "stderr_tail": err[-300:].decode("utf-8", "replace")}, "required": bad + " (every internal failure yields {} or ask)", "oracle": "fault-injection"})
    finally:
        w.close()
        wbad.close()
    return {"violations": vios[:5], "evaluations": stats["evaluations"], "distinct_nontrivial": stats["evaluations"] - stats.get("decision:None", 0), "stats": dict(stats), "samples": samples, "oracle": "subprocess: exit 0, one JSON object, no traceback, allow-only-if; injected exceptions"}


def matches_finding(entry, v) -> bool:
    return False


def _f06a_times_out(entry) -> bool:
    w = entry["witness"]
    with H.Scratch() as s:
        t0 = time.time()
        try:
            H.run_hook(H.claude_input(w["command"], cwd=s.proj), home=s.home, timeout=w.get("timeout_s", 6))
        except subprocess.TimeoutExpired:
            return True
        return time.time() - t0 > w.get("timeout_s", 6)


def finding_still_fails(ctx, entry) -> bool:
    if entry.get("id") == "F06a":
        return _f06a_times_out(entry)
    return False


def replay(payload) -> int:
    inp = payload["input"]
    with H.Scratch() as s:
        s.user_config(inp.get("user_config", ""))
        if inp.get("project_config") == CH.UNREADABLE:
            CH.make_unreadable_user_config(s.home)
        elif inp.get("project_config"):
            s.write("proj/.dippy", inp["project_config"])
        rc, out, err = H.run_hook(inp["stdin"].encode("utf-8", "replace"), home=s.home, args=inp.get("argv", []), cwd=s.proj)
    print("exit", rc, "stdout", out[:300], "stderr", err[-200:])
    print("required:", payload.get("required"))
    return 1
