"""Run the real bin/dippy-hook (and bin/dippy-statusline) as subprocesses in a scratch world."""
from __future__ import annotations

import json
import os
import shutil
import subprocess
import tempfile
from concurrent.futures import ThreadPoolExecutor

from common import REPO

HOOK = os.path.join(REPO, "bin", "dippy-hook")
PY = "/venv/bin/python"


class Scratch:
    """A throw-away HOME + project tree."""

    def __init__(self, prefix="dippy-verif-"):
        self.root = tempfile.mkdtemp(prefix=prefix)
        self.home = os.path.join(self.root, "home")
        self.proj = os.path.join(self.root, "proj")
        os.makedirs(self.home)
        os.makedirs(self.proj)

    def write(self, rel: str, data, mode="w"):
        p = os.path.join(self.root, rel)
        os.makedirs(os.path.dirname(p), exist_ok=True)
        with open(p, mode) as f:
            f.write(data)
        return p

    def user_config(self, text: str):
        return self.write("home/.dippy/config", text)

    def cleanup(self):
        shutil.rmtree(self.root, ignore_errors=True)

    def __enter__(self):
        return self

    def __exit__(self, *a):
        self.cleanup()


def run_hook(stdin: bytes, *, home: str, args=(), env_extra=None, cwd=None, timeout=60):
    env = {"HOME": home, "PATH": "/usr/bin:/bin", "LANG": "C.UTF-8"}
    if env_extra:
        for k, v in env_extra.items():
            if v is None:
                env.pop(k, None)
            else:
                env[k] = v
    p = subprocess.run([PY, HOOK, *args], input=stdin, capture_output=True, env=env, cwd=cwd or home, timeout=timeout)
    return p.returncode, p.stdout, p.stderr


def run_many(jobs, workers=16):
    """jobs: list of kwargs for run_hook; returns results in order."""
    with ThreadPoolExecutor(max_workers=workers) as ex:
        return list(ex.map(lambda kw: run_hook(**kw), jobs))


def claude_input(command, cwd=None, event=None, tool="Bash", **extra) -> bytes:
    d = {"tool_name": tool, "tool_input": {"command": command}}
    if cwd:
        d["cwd"] = cwd
    if event:
        d["hook_event_name"] = event
    d.update(extra)
    return json.dumps(d).encode()


def decision_of(stdout: bytes):
    """(decision|None, reason|None) from any of the three envelopes; None,None for {} / not JSON."""
    try:
        j = json.loads(stdout.decode("utf-8", "replace"))
    except Exception:  # noqa: BLE001
        return ("<not-json>", None)
    if not isinstance(j, dict) or not j:
        return (None, None)
    if "hookSpecificOutput" in j:
        h = j["hookSpecificOutput"]
        return (h.get("permissionDecision"), h.get("permissionDecisionReason"))
    if "decision" in j:
        return (j.get("decision"), j.get("reason"))
    if "permission" in j:
        return (j.get("permission"), j.get("user_message"))
    return ("<unknown-envelope>", None)
