"""T1 for load_config / _find_project_config: real directory layouts, recorded FS facts."""
from __future__ import annotations

import os
import pathlib
import shutil
import tempfile
from contextlib import contextmanager

from corr_config import Acc, cfg_to_json, gen_rules_text, gen_redirect_rules, penv_json


class Layout:
    """A scratch tree: home/.dippy/config?, a chain of directories with `.dippy` variants, env file?"""

    KINDS = ["absent", "file", "dir", "link_file", "link_dir", "dangling", "empty_file"]

    def __init__(self, r, depth=None):
        self.r = r
        self.root = tempfile.mkdtemp(prefix="dippy-verif-layout-")
        self.home = os.path.join(self.root, "home")
        os.makedirs(self.home)
        self.depth = depth if depth is not None else r.randint(1, 5)
        self.dirs = [os.path.join(self.root, "w")]
        for i in range(self.depth):
            self.dirs.append(os.path.join(self.dirs[-1], "d%d" % i))
        os.makedirs(self.dirs[-1])
        self.kinds = []
        self.texts = {}
        aux = os.path.join(self.root, "aux")
        os.makedirs(aux)
        for i, d in enumerate(self.dirs):
            k = r.pick(self.KINDS) if r.chance(0.6) else "absent"
            self.kinds.append(k)
            p = os.path.join(d, ".dippy")
            text = self.gen_text("proj%d" % i)
            if k == "file":
                open(p, "w").write(text)
                self.texts[p] = text
            elif k == "empty_file":
                open(p, "w").write("")
                self.texts[p] = ""
            elif k == "dir":
                os.makedirs(p)
            elif k == "link_file":
                tgt = os.path.join(aux, "t%d" % i)
                open(tgt, "w").write(text)
                os.symlink(tgt, p)
                self.texts[p] = text
            elif k == "link_dir":
                tgt = os.path.join(aux, "td%d" % i)
                os.makedirs(tgt)
                os.symlink(tgt, p)
            elif k == "dangling":
                os.symlink(os.path.join(aux, "nothing%d" % i), p)
        # user layer
        self.user_text = None
        if r.chance(0.6):
            self.user_text = self.gen_text("user")
            os.makedirs(os.path.join(self.home, ".dippy"))
            open(os.path.join(self.home, ".dippy", "config"), "w").write(self.user_text)
        # permission bits of the configuration files (what umask 002 / 000 / 077 leave behind): a readable file is a layer
        # whatever its mode
        self.modes = {}
        cands = [p for p in self.texts] + ([os.path.join(self.home, ".dippy", "config")] if self.user_text is not None else [])
        for pth in cands:
            if r.chance(0.5):
                mode = r.pick([0o664, 0o666, 0o660, 0o600, 0o444, 0o640, 0o755, 0o604, 0o622])
                os.chmod(pth, mode)  # follows symlinks: a linked .dippy gets the bits on its target
                self.modes[os.path.relpath(pth, self.root)] = oct(mode)
        # env layer
        self.env_text = None
        self.env_value = None
        x = r.random()
        if x < 0.45:
            self.env_text = self.gen_text("env")
            p = os.path.join(self.root, "env.conf")
            open(p, "w").write(self.env_text)
            self.env_value = p
            if r.chance(0.25):
                open(os.path.join(self.home, "envh.conf"), "w").write(self.env_text)
                self.env_value = "~/envh.conf"
        elif x < 0.55 and (self.user_text is not None or self.texts):
            # $DIPPY_CONFIG names a file that is already a layer (the user config, a project file), directly, via ~ or via a
            # symlink: the layer is then read twice and its rules come last again
            cands = []
            if self.user_text is not None:
                cands.append((os.path.join(self.home, ".dippy", "config"), self.user_text))
                cands.append(("~/.dippy/config", self.user_text))
            for pth, txt in self.texts.items():
                cands.append((pth, txt))
            pth, txt = r.pick(cands)
            if r.chance(0.3) and not pth.startswith("~"):
                link = os.path.join(self.root, "envlink.conf")
                os.symlink(pth, link)
                pth = link
            self.env_value, self.env_text = pth, txt
        elif x < 0.58:
            self.env_value = os.path.join(self.root, "missing.conf")
        elif x < 0.62:
            self.env_value = aux  # a directory
        elif x < 0.66:
            self.env_value = ""
        # cwd: any directory of the chain, possibly through a symlinked directory
        self.cwd_index = r.randrange(len(self.dirs))
        self.cwd = self.dirs[self.cwd_index]
        if r.chance(0.25):
            link = os.path.join(self.root, "cwdlink")
            os.symlink(self.cwd, link)
            self.cwd = link

    def gen_text(self, tag: str) -> str:
        r = self.r
        t = gen_rules_text(r, k=r.randint(0, 3))
        if r.chance(0.5):
            t += gen_redirect_rules(r, k=r.randint(0, 2))
        if r.chance(0.3):
            t += r.pick(["set log /tmp/%s.log\n" % tag, "set log-full\n", "alias t%s git\n" % tag[:1], "deny-mcp mcp__%s__*\n" % tag, "after git push \"%s\"\n" % tag])
        # a probe rule that tells the layers apart
        t += r.pick(["allow", "deny", "ask"]) + " probe-" + r.pick(["a", "b"]) + "\n"
        if r.chance(0.15):
            t = t.rstrip("\n")
        return t

    def expected_project(self):
        """nearest ancestor-or-self of the real cwd whose .dippy is a regular file (through symlinks)"""
        for i in range(self.cwd_index, -1, -1):
            if self.kinds[i] in ("file", "link_file", "empty_file"):
                return os.path.join(self.dirs[i], ".dippy")
        return None

    def concatenated(self) -> str:
        p = self.expected_project()
        parts = [self.user_text or "", self.texts.get(p, "") if p else "", self.env_text or ""]
        return "\n".join(parts)

    def cleanup(self):
        shutil.rmtree(self.root, ignore_errors=True)


@contextmanager
def layout_env(lay: Layout):
    """Point the implementation at the layout: HOME, DIPPY_CONFIG, USER_CONFIG (computed at import)."""
    from dippy.core import config as C

    saved = (os.environ.get("HOME"), os.environ.get("DIPPY_CONFIG"), C.USER_CONFIG)
    os.environ["HOME"] = lay.home
    if lay.env_value is None:
        os.environ.pop("DIPPY_CONFIG", None)
    else:
        os.environ["DIPPY_CONFIG"] = lay.env_value
    C.USER_CONFIG = pathlib.Path(lay.home) / ".dippy" / "config"
    try:
        yield
    finally:
        if saved[0] is None:
            os.environ.pop("HOME", None)
        else:
            os.environ["HOME"] = saved[0]
        if saved[1] is None:
            os.environ.pop("DIPPY_CONFIG", None)
        else:
            os.environ["DIPPY_CONFIG"] = saved[1]
        C.USER_CONFIG = saved[2]


@contextmanager
def record_fs(fs: dict):
    real_is_file, real_read, real_resolve = pathlib.Path.is_file, pathlib.Path.read_text, pathlib.Path.resolve

    def is_file(self):
        try:
            r = real_is_file(self)
        except PermissionError:
            fs["isfile"].append([str(self), "permission"])
            raise
        except Exception:
            fs["isfile"].append([str(self), "raised"])
            raise
        fs["isfile"].append([str(self), "yes" if r else "no"])
        return r

    def read_text(self, *a, **k):
        try:
            t = real_read(self, *a, **k)
        except PermissionError:
            fs["read"].append([str(self), {"err": "permission"}])
            raise
        except OSError as e:
            fs["read"].append([str(self), {"err": "oserror", "msg": str(e)}])
            raise
        except Exception:
            fs["read"].append([str(self), {"err": "raised"}])
            raise
        fs["read"].append([str(self), {"ok": t}])
        return t

    def resolve(self, strict=False):
        r = real_resolve(self, strict)
        fs["resolve"].append([str(self), str(r)])
        return r

    pathlib.Path.is_file, pathlib.Path.read_text, pathlib.Path.resolve = is_file, read_text, resolve
    try:
        yield
    finally:
        pathlib.Path.is_file, pathlib.Path.read_text, pathlib.Path.resolve = real_is_file, real_read, real_resolve


def run_load(lay: Layout):
    """(impl_result, fs_tables): impl_result = {"ok": cfgjson} | {"config_error": msg} | "raised" """
    from dippy.core import config as C

    fs = {"isfile": [], "read": [], "resolve": []}
    with layout_env(lay), record_fs(fs):
        try:
            cfg = C.load_config(pathlib.Path(lay.cwd))
            impl = {"ok": cfg_to_json(cfg)}
        except C.ConfigError as e:
            impl = {"config_error": str(e)}
        except Exception:  # noqa: BLE001
            impl = "raised"
    return impl, fs


def corr_load(model, r, n, faults=True) -> dict:
    acc = Acc("load_config / _find_project_config")
    for _ in range(n):
        lay = Layout(r)
        try:
            if faults and r.chance(0.12):
                # a layer that exists but cannot be read / decoded
                which = r.pick(["eio-env", "badutf8-env", "badutf8-proj"])
                if which == "eio-env":
                    lay.env_value, lay.env_text = "/proc/self/mem", None
                elif which == "badutf8-env":
                    p = os.path.join(lay.root, "bad.conf")
                    open(p, "wb").write(b"allow x\n\xff\xfe")
                    lay.env_value, lay.env_text = p, None
                else:
                    open(os.path.join(lay.dirs[lay.cwd_index], ".dippy"), "wb").write(b"\xff\xfeallow y\n") if not os.path.lexists(os.path.join(lay.dirs[lay.cwd_index], ".dippy")) else None
            impl, fs = run_load(lay)
            with layout_env(lay):
                penv = penv_json()
                envv = os.environ.get("DIPPY_CONFIG")
                env_path = None
                if envv:
                    try:
                        env_path = {"path": str(pathlib.Path(envv).expanduser())}
                    except RuntimeError:
                        env_path = {"raised": True}
            rep = model.ask({"op": "loadconfig", "penv": penv, "fs": fs, "user_config": os.path.join(lay.home, ".dippy", "config"), "cwd": lay.cwd, "env_path": env_path})
            tag = "ok" if isinstance(impl, dict) and "ok" in impl else ("config_error" if isinstance(impl, dict) else "raised")
            nrules = len(impl["ok"]["rules"]) if tag == "ok" else 0
            acc.case([lay.kinds, lay.cwd_index, lay.user_text, lay.env_value, lay.concatenated()], impl, rep, nontrivial=nrules > 0, tag=tag + ":layers=%d" % sum(x is not None for x in (lay.user_text, lay.expected_project(), lay.env_text)), sample={"dippy_kinds_root_to_leaf": lay.kinds, "cwd_level": lay.cwd_index, "user_layer": lay.user_text is not None, "env": lay.env_value and os.path.basename(lay.env_value), "result": tag})
        finally:
            lay.cleanup()
    return acc.result()
