"""Serialise a Parable AST into the JSON the Lean driver reads (Model/Syntax.lean),
and record the answers of everything external to the analyzer while the real
`analyze` runs (the model's `World`)."""
from __future__ import annotations

from contextlib import contextmanager


class Unserialisable(Exception):
    pass


def _is_node(x) -> bool:
    return hasattr(x, "kind") and not isinstance(x, (str, bytes))


def ser_word(w) -> dict:
    if w is None:
        raise Unserialisable("word is None")
    if isinstance(w, str):
        return {"v": w, "p": []}
    v = getattr(w, "value", None)
    if not isinstance(v, str):
        v = str(w) if v is None else str(v)
    parts = getattr(w, "parts", None) or []
    return {"v": v, "p": [ser_part(p) for p in parts]}


def _opt_str(x):
    return x if isinstance(x, str) else None


def ser_part(p) -> dict:
    k = getattr(p, "kind", None)
    if k == "cmdsub":
        return {"k": "cmdsub", "c": ser_node(p.command)}
    if k == "procsub":
        return {"k": "procsub", "d": getattr(p, "direction", "?"), "c": ser_node(p.command)}
    if k == "param":
        return {"k": "param", "n": _opt_str(getattr(p, "param", "")) or "", "op": _opt_str(getattr(p, "op", None)), "arg": _opt_str(getattr(p, "arg", None))}
    if k == "param-len":
        return {"k": "param-len", "n": _opt_str(getattr(p, "param", "")) or ""}
    if k == "param-indirect":
        return {"k": "param-indirect", "n": _opt_str(getattr(p, "param", "")) or "", "op": _opt_str(getattr(p, "op", None)), "arg": _opt_str(getattr(p, "arg", None))}
    if k == "arith":
        e = getattr(p, "expression", None)
        return {"k": "arith", "e": ser_arith(e) if _is_node(e) else None}
    if k == "arith-deprecated":
        return {"k": "arith-deprecated", "e": _opt_str(getattr(p, "expression", "")) or ""}
    if k == "array":
        return {"k": "array", "elems": [ser_word(e) for e in (getattr(p, "elements", None) or [])]}
    return {"k": "other", "kind": str(k)}


def ser_arith(a) -> dict:
    k = getattr(a, "kind", None)
    if k == "cmdsub":
        return {"k": "cmdsub", "c": ser_node(a.command)}
    attrs = []
    for name, v in vars(a).items():
        if name == "kind" or name.startswith("_"):
            continue
        if v is None:
            continue
        if _is_node(v):
            attrs.append([name, {"one": ser_arith(v)}])
        elif isinstance(v, (list, tuple)):
            attrs.append([name, {"many": [ser_arith(x) for x in v if _is_node(x)]}])
        elif isinstance(v, str):
            attrs.append([name, {"str": v}])
        else:
            attrs.append([name, {"str": repr(v)}])
    return {"k": str(k), "attrs": attrs}


def ser_redir(r) -> dict:
    k = getattr(r, "kind", None)
    if k == "heredoc":
        return {"k": "heredoc", "quoted": bool(getattr(r, "quoted", True)), "content": getattr(r, "content", "") or ""}
    # the analyzer treats every non-heredoc element as a redirect with op/target
    t = getattr(r, "target", None)
    return {"k": "redirect", "op": getattr(r, "op", "") or "", "target": ser_word(t) if t else None}


def ser_redirs(n) -> list:
    return [ser_redir(r) for r in (getattr(n, "redirects", None) or [])]


def ser_cond(c) -> dict:
    k = getattr(c, "kind", None)
    if k == "unary-test":
        return {"k": k, "op": getattr(c, "op", "") or "", "operand": ser_word(c.operand)}
    if k == "binary-test":
        return {"k": k, "op": getattr(c, "op", "") or "", "left": ser_word(c.left), "right": ser_word(c.right)}
    if k in ("cond-and", "cond-or"):
        return {"k": k, "left": ser_cond(c.left), "right": ser_cond(c.right)}
    if k == "cond-not":
        return {"k": k, "operand": ser_cond(c.operand)}
    if k == "cond-paren":
        return {"k": k, "inner": ser_cond(c.inner)}
    return {"k": "other:" + str(k)}


def ser_node(n) -> dict:
    k = getattr(n, "kind", None)
    if k == "command":
        return {"k": k, "words": [ser_word(w) for w in n.words], "redirects": ser_redirs(n)}
    if k == "pipeline":
        return {"k": k, "commands": [ser_node(c) for c in n.commands]}
    if k == "list":
        return {"k": k, "parts": [ser_node(p) for p in n.parts]}
    if k == "operator":
        return {"k": k, "op": getattr(n, "op", "")}
    if k == "if":
        e = getattr(n, "else_body", None)
        return {"k": k, "cond": ser_node(n.condition), "then": ser_node(n.then_body), "else": ser_node(e) if e else None, "redirects": ser_redirs(n)}
    if k in ("while", "until"):
        return {"k": k, "cond": ser_node(n.condition), "body": ser_node(n.body), "redirects": ser_redirs(n)}
    if k in ("for", "select"):
        ws = getattr(n, "words", None) or []
        return {"k": k, "var": getattr(n, "var", "") or "", "words": [ser_word(w) for w in ws], "body": ser_node(n.body), "redirects": ser_redirs(n)}
    if k == "for-arith":
        return {"k": k, "init": n.init or "", "condx": n.cond or "", "incr": n.incr or "", "body": ser_node(n.body), "redirects": ser_redirs(n)}
    if k == "case":
        w = getattr(n, "word", None)
        pats = []
        for p in n.patterns:
            b = getattr(p, "body", None)
            pats.append({"pattern": _opt_str(getattr(p, "pattern", "")) or "", "body": ser_node(b) if b else None})
        return {"k": k, "word": ser_word(w) if w else None, "patterns": pats, "redirects": ser_redirs(n)}
    if k == "function":
        return {"k": k, "name": getattr(n, "name", "") or "", "body": ser_node(n.body)}
    if k in ("subshell", "brace-group"):
        return {"k": k, "body": ser_node(n.body), "redirects": ser_redirs(n)}
    if k in ("time", "negation"):
        return {"k": k, "pipeline": ser_node(n.pipeline)}
    if k == "coproc":
        return {"k": k, "command": ser_node(n.command)}
    if k == "cond-expr":
        b = getattr(n, "body", None)
        return {"k": k, "body": ser_cond(b) if b else None, "redirects": ser_redirs(n)}
    if k == "arith-cmd":
        e = getattr(n, "expression", None)
        raw = getattr(n, "raw_content", None)
        return {"k": k, "expr": ser_arith(e) if _is_node(e) else None, "raw": raw if isinstance(raw, str) else None, "redirects": ser_redirs(n)}
    if k in ("comment", "empty"):
        return {"k": k}
    return {"k": "other", "kind": str(k)}


def ser_match(m):
    if m is None:
        return None
    return {"decision": m.decision, "pattern": m.pattern, "message": m.message}


def ser_classification(c) -> dict:
    return {
        "action": c.action,
        "inner": c.inner_command,
        "desc": c.description,
        "targets": list(c.redirect_targets or ()),
        "remote": bool(c.remote),
    }


class Recorder:
    """Tables of every external answer given during one real `analyze` run."""

    def __init__(self):
        self.parse = []
        self.match_command = []
        self.match_redirect = []
        self.classify = []
        self.description = []
        self.resolve_cd = []
        self.raised = None
        self.ambiguous = False

    def world(self) -> dict:
        return {
            "parse": self.parse,
            "matchCommand": self.match_command,
            "matchRedirect": self.match_redirect,
            "classify": self.classify,
            "description": self.description,
            "resolveCd": self.resolve_cd,
        }


@contextmanager
def recording(rec: Recorder, *, oracle_match: bool = True):
    """Wrap the analyzer's external calls.  With oracle_match=False the match_*
    functions are not recorded (the model computes them from the config)."""
    import dippy.core.analyzer as A
    import dippy.core.config as C

    saved = {}

    def patch(mod, name, fn):
        saved[(mod, name)] = getattr(mod, name)
        setattr(mod, name, fn)

    real_parse = A.parse

    def parse(s):
        try:
            nodes = real_parse(s)
        except A.ParseError as e:
            rec.parse.append([s, {"err": e.message}])
            raise
        rec.parse.append([s, {"ok": [ser_node(n) for n in nodes]}])
        return nodes

    patch(A, "parse", parse)

    real_get_handler = A.get_handler

    class Proxy:
        def __init__(self, h):
            self._h = h

        def classify(self, ctx):
            r = self._h.classify(ctx)
            sc = ser_classification(r)
            # the model's oracle is a function of the tokens; a handler that also reads the cwd (python) may answer the
            # same tokens differently after a `cd`: such a run cannot be replayed by the model
            for t0, c0 in rec.classify:
                if t0 == list(ctx.tokens) and c0 != sc:
                    rec.ambiguous = True
            rec.classify.append([list(ctx.tokens), sc])
            return r

        def __getattr__(self, name):
            return getattr(self._h, name)

    def get_handler(name):
        h = real_get_handler(name)
        return Proxy(h) if h is not None else None

    patch(A, "get_handler", get_handler)

    real_desc = A.get_description

    def get_description(tokens, handler_name=None):
        r = real_desc(tokens, handler_name)
        rec.description.append([list(tokens), r])
        return r

    patch(A, "get_description", get_description)

    real_cd = A._resolve_cd_target

    def resolve_cd(target, cwd):
        r = real_cd(target, cwd)
        rec.resolve_cd.append([target, str(cwd), str(r)])
        return r

    patch(A, "_resolve_cd_target", resolve_cd)

    if oracle_match:
        real_mr = A.match_redirect

        def match_redirect(target, config, cwd):
            r = real_mr(target, config, cwd)
            rec.match_redirect.append([target, str(cwd), ser_match(r)])
            return r

        patch(A, "match_redirect", match_redirect)

        real_mc = C.match_command

        def match_command(cmd, config, cwd, *, remote=False):
            r = real_mc(cmd, config, cwd, remote=remote)
            rec.match_command.append([list(cmd.words), str(cwd), bool(remote), ser_match(r)])
            return r

        patch(C, "match_command", match_command)

    try:
        yield rec
    finally:
        for (mod, name), fn in saved.items():
            setattr(mod, name, fn)
