"""T1 for main() of the hook: the real bin/dippy-hook as a subprocess vs Model/Hook.lean.

The model's external answers (config loading, analysis, tokenisation, cwd resolution, path
resolution) are computed in-process with the *real* functions and handed over as tables, so
what is compared is the routing / mode detection / envelope logic of main().
"""
from __future__ import annotations

import json
import os
import pathlib

import hookrun as H
from common import has_surrogate
from corr_config import Acc, cfg_to_json, env_json, record_resolve

USER_CONFIG = """\
allow ok1
deny denied "denied by rule"
ask askme
allow-redirect /tmp/ok
after git push "check CI"
after git commit ""
after npm *
allow-mcp mcp__github__get_*
deny-mcp mcp__fs__* "no fs"
ask-mcp mcp__ask__*
after-mcp mcp__github__create_* "posted"
"""
PROJECT_CONFIG = "deny projdeny\nallow projok\nafter-mcp mcp__proj__* \"proj\"\n"

COMMANDS = ["ls", "rm x", "denied", "askme", "ok1 a", "git status", "git push", "git push origin main", "git commit -m x", "npm run build", "projdeny", "projok",
            "ls > /tmp/ok", "ls > /tmp/zz", "echo $(rm x)", "", "   ", "'unterminated", "ls | cat", "ls; rm x", "é 😀", "a\x00b", "for x; do ls; done", "if", "x" * 3000, "ls " + "a " * 2000]
TOOLS = ["Bash", "shell", "run_shell", "run_shell_command", "execute_shell", "mcp__github__get_issue", "mcp__github__create_pr", "mcp__fs__read", "mcp__ask__x", "mcp__none__x", "mcp__proj__t", "mcp__", "Read", "Write", "", "bash", "Shell"]
JUNK = [None, True, False, 0, 5, 1.5, "", "str", [], ["a"], {}, {"a": 1}]


def tagged(v):
    """tagged encoding for the driver"""
    if v is None:
        return {"t": "null"}
    if isinstance(v, bool):
        return {"t": "bool", "v": v}
    if isinstance(v, (int, float)):
        return {"t": "num", "zero": v == 0, "repr": repr(v)}
    if isinstance(v, str):
        return {"t": "str", "v": v}
    if isinstance(v, list):
        return {"t": "arr", "v": [tagged(x) for x in v]}
    if isinstance(v, dict):
        return {"t": "obj", "v": [[k, tagged(x)] for k, x in v.items()]}
    raise TypeError(type(v))


def untag_out(v):
    """model output json (numbers come back as {"num": repr}) -> python"""
    if isinstance(v, dict) and set(v) == {"num"}:
        return json.loads(v["num"])
    if isinstance(v, dict):
        return {k: untag_out(x) for k, x in v.items()}
    if isinstance(v, list):
        return [untag_out(x) for x in v]
    return v


def any_surrogate(v) -> bool:
    if isinstance(v, str):
        return has_surrogate(v)
    if isinstance(v, list):
        return any(any_surrogate(x) for x in v)
    if isinstance(v, dict):
        return any(has_surrogate(k) or any_surrogate(x) for k, x in v.items())
    return False


def gen_value(r, proj: str):
    """a JSON value: mostly one of the three host shapes with type-confused fields"""
    x = r.random()
    if x < 0.06:
        return r.pick(JUNK + [[{"command": "ls"}], "command", ["command"], ["command", "tool_name"], "xcommandx"])
    shape = r.pick(["claude", "claude", "gemini", "cursor"])
    cmd = r.pick(COMMANDS)
    d = {}

    def field(correct, p_junk=0.12, p_missing=0.08):
        y = r.random()
        if y < p_missing:
            return "<missing>"
        if y < p_missing + p_junk:
            return r.pick(JUNK)
        return correct

    if shape == "cursor":
        v = field(cmd)
        if v != "<missing>":
            d["command"] = v
        if r.chance(0.1):
            d["tool_name"] = r.pick(TOOLS)
    else:
        tn = r.pick(TOOLS) if r.chance(0.55) else ("Bash" if shape == "claude" else r.pick(["shell", "run_shell_command"]))
        v = field(tn)
        if v != "<missing>":
            d["tool_name"] = v
        ti = {"command": field(cmd, 0.1, 0.05)}
        if ti["command"] == "<missing>":
            del ti["command"]
        if r.chance(0.15):
            ti["cwd"] = r.pick([proj, proj + "/sub", "", 5, None])
        v = field(ti)
        if v != "<missing>":
            d["tool_input"] = v
        if r.chance(0.08):
            d["command"] = r.pick(COMMANDS)
    if r.chance(0.7):
        d["cwd"] = r.pick([proj, proj, proj, proj + "/sub", proj + "/../proj", "/nonexistent/dir", "", "relative/dir", 5, None, ["x"], proj + "\x00x", "~"])
    if r.chance(0.45):
        d["hook_event_name"] = r.pick(["PreToolUse", "PostToolUse", "PostToolUse", "Other", "", 5, None, ["PostToolUse"]])
    if r.chance(0.25):
        d["permission_mode"] = r.pick(["default", "bypassPermissions", "dontAsk", "acceptEdits", 5, None, ["bypassPermissions"], ""])
    if r.chance(0.1):
        d["session_id"] = "abc"
    return d


def gen_raw(r):
    k = r.random()
    if k < 0.15:
        return b""
    if k < 0.3:
        return r.pick([b"{", b'{"tool_name": "Bash"', b"[1,2", b'"abc', b"nul", b"{'a': 1}", b"\xef\xbb\xbf{}", b"   ", b"\n", b"{} {}", b"{}\n{}", b"NaN", b"Infinity", b"-0", b"1e999"])
    if k < 0.45:
        return r.pick([b"\xff\xfe{}", b'{"tool_name": "Bash", "tool_input": {"command": "\xff"}}', b"\x00", b'{"a":"\x00"}', b"\x80"])
    if k < 0.6:
        return b"[" * r.pick([50, 2000, 100000]) + b"]" * r.pick([0, 50, 2000])
    if k < 0.75:
        return json.dumps({"tool_name": "Bash", "tool_input": {"command": "ls " + "x" * r.pick([10000, 300000])}}).encode()
    if k < 0.85:
        return b'{"tool_name": "Bash", "tool_input": {"command": "\\ud800"}}'
    return json.dumps([gen_value(r, "/tmp")] * 3).encode()


FLAG_SETS = [[], [], [], ["--claude"], ["--gemini"], ["--cursor"], ["--cursor", "--claude"], ["--gemini", "--cursor"], ["--unknown"]]
ENV_VALUES = [None, None, None, "1", "true", "yes", "YES", "0", "", "garbage", "True"]


UNREADABLE = "<symlink to /proc/self/mem>"


def make_unreadable_user_config(home):
    p = os.path.join(home, ".dippy", "config")
    os.makedirs(os.path.dirname(p), exist_ok=True)
    if os.path.lexists(p):
        os.unlink(p)
    os.symlink("/proc/self/mem", p)


class World:
    """scratch HOME/project + in-process oracle for one batch"""

    def __init__(self, project_config=None):
        self.s = H.Scratch()
        self.s.user_config(USER_CONFIG)
        self.proj = os.path.join(self.s.root, "proj")
        os.makedirs(os.path.join(self.proj, "sub"))
        self.s.write("proj/.dippy", PROJECT_CONFIG)
        if project_config == UNREADABLE:
            # the user configuration is a file whose read fails with EIO (works for root too):
            # load_config raises ConfigError whatever the cwd
            make_unreadable_user_config(self.s.home)
        self.cache_load = {}

    def close(self):
        self.s.cleanup()

    def oracle(self, value, env_extra, process_cwd):
        """tables for the model, computed with the real functions in-process"""
        from dippy.core import config as C
        from dippy.core.analyzer import analyze
        from dippy.core.parser import tokenize

        import corr_load as CL

        cwds = []
        cmds = [""]  # the default of every .get("command", "")
        if isinstance(value, dict):
            for c in (value.get("cwd"), (value.get("tool_input") or {}).get("cwd") if isinstance(value.get("tool_input"), dict) else None):
                if isinstance(c, str) and c:
                    cwds.append(c)
            for c in (value.get("command"), (value.get("tool_input") or {}).get("command") if isinstance(value.get("tool_input"), dict) else None):
                if isinstance(c, str):
                    cmds.append(c)
        resolve = []
        resolved = [process_cwd]
        saved = os.getcwd()
        os.chdir(process_cwd)
        try:
            for c in cwds:
                try:
                    rr = str(pathlib.Path(c).resolve())
                    resolve.append([c, rr])
                    resolved.append(rr)
                except Exception:  # noqa: BLE001
                    resolve.append([c, None])
        finally:
            os.chdir(saved)
        lay = type("L", (), {})()
        lay.home = self.s.home
        lay.env_value = env_extra.get("DIPPY_CONFIG")
        load = []
        analyze_t = []
        table = []
        tok = []
        with CL.layout_env(lay):
            for cw in dict.fromkeys(resolved):
                try:
                    cfg = C.load_config(pathlib.Path(cw))
                    C.configure_logging(cfg)
                    load.append([cw, {"ok": cfg_to_json(cfg)}])
                except C.ConfigError as e:
                    load.append([cw, {"config_error": str(e)}])
                    cfg = None
                except Exception:  # noqa: BLE001
                    load.append([cw, "raised"])
                    cfg = None
                if cfg is None:
                    continue
                for cmd in dict.fromkeys(cmds):
                    try:
                        d = analyze(cmd, cfg, pathlib.Path(cw))
                        analyze_t.append([cmd, cw, {"action": d.action, "reason": d.reason}])
                    except Exception:  # noqa: BLE001
                        analyze_t.append([cmd, cw, None])
                    words = tokenize(cmd)
                    tok.append([cmd, words])
                    with record_resolve(table):
                        try:
                            C.match_after(words, cfg, pathlib.Path(cw))
                        except Exception:  # noqa: BLE001
                            pass
            home = str(pathlib.Path.home())
        return {"process_cwd": process_cwd, "resolve": resolve, "load": load, "analyze": analyze_t, "tokenize": tok, "env": {"home": home, "resolve": table}, "log_ok": True}


def parse_stdout(out: bytes):
    """canonical form of the hook's stdout: list of {"json":..} / {"text":..}"""
    text = out.decode("utf-8", "replace")
    res = []
    for line in text.split("\n"):
        if line == "":
            continue
        try:
            res.append({"json": json.loads(line)})
        except Exception:  # noqa: BLE001
            res.append({"text": line})
    return res


def corr_hook(model, r, n, *, env_pool=None) -> dict:
    acc = Acc("main() of bin/dippy-hook (subprocess) vs Model/Hook")
    w = World()
    try:
        jobs, metas = [], []
        for _ in range(n):
            raw = None
            if r.chance(0.82):
                value = gen_value(r, w.proj)
                stdin = json.dumps(value).encode()
            else:
                raw = gen_raw(r)
                stdin = raw
                value = None
            args = list(r.pick(FLAG_SETS))
            envx = {}
            for name in ("DIPPY_CLAUDE", "DIPPY_GEMINI", "DIPPY_CURSOR"):
                v = r.pick(ENV_VALUES)
                if v is not None:
                    envx[name] = v
            if r.chance(0.1):
                envx["DIPPY_CONFIG"] = r.pick(["/proc/self/mem", os.path.join(w.s.root, "missing.conf")])
            jobs.append({"stdin": stdin, "home": w.s.home, "args": args, "env_extra": envx, "cwd": w.proj})
            metas.append((value, raw, args, envx))
        results = H.run_many(jobs)
        for (value, raw, args, envx), (rc, out, err) in zip(metas, results):
            tb = b"Traceback" in err
            got = parse_stdout(out)
            # what kind of stdin is it, by Python's own json
            if raw is not None:
                try:
                    # the hook runs under LANG=C.UTF-8: CPython decodes stdin with surrogateescape there,
                    # so undecodable bytes arrive as lone surrogates (under a strict locale they raise
                    # UnicodeDecodeError, which main() turns into {} as well)
                    text = raw.decode("utf-8", "surrogateescape")
                    try:
                        value = json.loads(text)
                        kind = "value"
                    except json.JSONDecodeError:
                        kind = "notjson"
                    except RecursionError:
                        kind = "raises"
                except UnicodeDecodeError:
                    kind = "undecodable"
            else:
                kind = "value"
            tag = "raw:" + kind if raw is not None else "structured"
            key = {"stdin": (raw[:200].decode("utf-8", "replace") if raw is not None else value), "args": args, "env": envx}
            if rc != 0 or tb:
                acc.case(key, {"exit": rc, "traceback": tb, "stderr": err[-200:].decode("utf-8", "replace")}, {"exit": 0, "traceback": False}, tag=tag)
                continue
            if kind == "raises":
                acc.case(key, got, [{"json": {}}], tag=tag, nontrivial=False)
                continue
            if kind == "value" and (any_surrogate(value) or _has_special_float(value)):
                acc.stats["skipped_unrepresentable"] += 1
                continue
            req = {"op": "hook", "argv": args, "environ": [[k, v] for k, v in envx.items() if k in ("DIPPY_CLAUDE", "DIPPY_GEMINI", "DIPPY_CURSOR")]}
            if kind == "value":
                req.update(w.oracle(value, envx, w.proj))
                req["stdin"] = {"kind": "value", "json": tagged(value)}
            else:
                req.update({"process_cwd": w.proj, "resolve": [], "load": [], "analyze": [], "tokenize": [], "env": {"home": w.s.home, "resolve": []}})
                req["stdin"] = {"kind": kind}
            rep = model.ask(req)
            want = untag_out(rep) if isinstance(rep, list) else rep
            dec = got[0]["json"] if len(got) == 1 and "json" in got[0] else None
            cls = "none"
            if isinstance(dec, dict) and dec:
                cls = str(H.decision_of(json.dumps(dec).encode())[0])
            elif got and "text" in got[0]:
                cls = "feedback"
            elif got == []:
                cls = "silent"
            else:
                cls = "{}"
            acc.case(key, got, want, tag=tag + ":" + cls, nontrivial=cls not in ("{}",), sample={"stdin": key["stdin"] if raw is None else repr(raw[:60]), "args": args, "env": envx, "stdout": got})
    finally:
        w.close()
    return acc.result()


def _has_special_float(v) -> bool:
    if isinstance(v, float):
        return v != v or v in (float("inf"), float("-inf"))
    if isinstance(v, list):
        return any(_has_special_float(x) for x in v)
    if isinstance(v, dict):
        return any(_has_special_float(x) for x in v.values())
    return False
