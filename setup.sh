#!/bin/sh
# Build the framework offline: regenerate tables from /repo, build the Lean library + driver.
set -e
cd "$(dirname "$0")"
/venv/bin/python harness/gen_tables.py >/dev/null
cd lean
lake build Dippy driver
